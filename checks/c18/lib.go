package main

import (
	"encoding/hex"
	"fmt"
	"os"
	"runtime/debug"
	"sort"
	"strings"
	"time"

	"github.com/piotrnar/gocoin/lib/btc"
	"github.com/piotrnar/gocoin/lib/script"
	"github.com/piotrnar/gocoin/lib/secp256k1"

	"verif/internal/ev"
	"verif/ref/reftx"
)

// Library entry points that parse untrusted data. Each call runs under recover()
// and a watchdog inside the worker process (ulimit -v); inputs travel in batches,
// a batch that kills the worker is re-run input by input by the parent.

var libTx *btc.Tx // spending transaction used by the VerifyTxScript family

func libCall(fn string, in []byte, text string, flags uint32) (outcome string) {
	switch fn {
	case "NewTx":
		tx, n := btc.NewTx(in)
		if tx == nil {
			return "rejected"
		}
		if n == len(in) {
			return "parsed-exact"
		}
		if n > len(in) {
			return "parsed-BEYOND-input"
		}
		return "parsed-prefix"
	case "TxSize":
		n := btc.TxSize(in)
		switch {
		case n == 0:
			return "0"
		case n < 0:
			return "negative"
		case n == len(in):
			return "exact"
		case n > len(in):
			return "beyond-input"
		}
		return "prefix"
	case "NewBlock":
		bl, er := btc.NewBlock(in)
		if er != nil || bl == nil {
			return "rejected-header"
		}
		if len(in) == 80 {
			return "header-only"
		}
		if er = bl.BuildTxList(); er != nil {
			return "rejected-txlist"
		}
		return fmt.Sprintf("parsed-%d-txs", len(bl.Txs))
	case "VerifyTxScript":
		// in = <1 byte: length of sigScript> <sigScript> <pkScript>
		if len(in) < 1 || int(in[0]) > len(in)-1 {
			return "bad-case"
		}
		sig, pk := in[1:1+int(in[0])], in[1+int(in[0]):]
		tx := *libTx
		ti := *tx.TxIn[0]
		ti.ScriptSig = sig
		tx.TxIn = []*btc.TxIn{&ti}
		tx.TxVerVars = nil
		tx.AllocVerVars()
		tx.Spent_outputs = []*btc.TxOut{{Value: 50e8, Pk_script: pk}}
		if script.VerifyTxScript(pk, &script.SigChecker{Amount: 50e8, Idx: 0, Tx: &tx}, flags) {
			return "true"
		}
		return "false"
	case "VerifyTxScript.witness", "VerifyTxScript.witness.shape":
		// in = [shape only: <inputs> <outputs> <index of the spending input>]
		//      <number of witness items> { <1 byte length> <item> } <pkScript>
		nin, nout, idx := 1, 1, 0
		if fn == "VerifyTxScript.witness.shape" {
			if len(in) < 3 || in[0] == 0 || in[2] >= in[0] {
				return "bad-case"
			}
			nin, nout, idx = int(in[0]), int(in[1]), int(in[2])
			in = in[3:]
		}
		if len(in) < 1 {
			return "bad-case"
		}
		t := &reftx.Tx{Version: 2}
		for k := 0; k < nin; k++ {
			t.In = append(t.In, reftx.In{Prev: [32]byte{0x11, 0x22, byte(k)}, Vout: uint32(k), Sequence: 0xffffffff})
		}
		for k := 0; k < nout; k++ {
			t.Out = append(t.Out, reftx.Out{Value: 1000, Script: []byte{0x51}})
		}
		if nin != 1 || nout != 1 {
			return verifyShaped(t, idx, in, flags)
		}
		p := 1
		for k := 0; k < int(in[0]); k++ {
			if p >= len(in) || p+1+int(in[p]) > len(in) {
				return "bad-case"
			}
			t.In[0].Witness = append(t.In[0].Witness, in[p+1:p+1+int(in[p])])
			p += 1 + int(in[p])
		}
		pk := in[p:]
		raw := t.Serialize(true)
		tx, n := btc.NewTx(raw)
		if tx == nil || n != len(raw) {
			return "tx-refused"
		}
		tx.SetHash(raw)
		tx.AllocVerVars()
		tx.Spent_outputs = []*btc.TxOut{{Value: 1000, Pk_script: pk}}
		if script.VerifyTxScript(pk, &script.SigChecker{Amount: 1000, Idx: 0, Tx: tx}, flags) {
			return "true"
		}
		return "false"
	case "ScriptScan":
		// the script scanners that run on every script of every transaction and block from a
		// peer, outside evalScript's recover(): sigop counting and the push-only test
		a := btc.GetSigOpCount(in, true)
		b := btc.GetSigOpCount(in, false)
		c := btc.GetP2SHSigOpCount(in)
		d := btc.IsPushOnly(in)
		tx := *libTx
		ti := *tx.TxIn[0]
		ti.ScriptSig = in
		tx.TxIn = []*btc.TxIn{&ti}
		tx.TxOut = []*btc.TxOut{{Value: 1, Pk_script: in}}
		e := tx.GetLegacySigOpCount()
		return fmt.Sprintf("sigops-%d-%d-%d-%d-pushonly-%v", a, b, c, e, d)
	case "Signature.ParseBytes":
		var s secp256k1.Signature
		n := s.ParseBytes(in)
		if n < 0 {
			return "rejected"
		}
		if n > len(in) {
			return "accepted-BEYOND-input"
		}
		return "accepted"
	case "XY.ParsePubkey":
		var xy secp256k1.XY
		if xy.ParsePubkey(in) {
			return "accepted"
		}
		return "rejected"
	case "NewAddrFromString":
		a, e := btc.NewAddrFromString(text)
		if e != nil || a == nil {
			return "rejected"
		}
		if a.SegwitProg != nil {
			return "segwit"
		}
		return "base58"
	}
	ev.HarnessError("unknown lib function %q", fn)
	return ""
}

func libSetup() {
	if libTx != nil {
		return
	}
	script.DBG_ERR = false
	t := &reftx.Tx{Version: 2, In: []reftx.In{{Prev: [32]byte{1, 2, 3}, Vout: 0, Sequence: 0xfffffffe}}, Out: []reftx.Out{{Value: 49e8, Script: []byte{0x51}}}}
	raw := t.Serialize(true)
	tx, n := btc.NewTx(raw)
	if tx == nil || n != len(raw) {
		ev.HarnessError("lib setup: NewTx refuses the reference transaction")
	}
	tx.SetHash(raw)
	libTx = tx
}

func runLib(cs *Case) (res Result) {
	res.ID = cs.ID
	libSetup()
	l := cs.Lib
	outc := map[string]int{}
	finish := func() {
		var ks []string
		for k, v := range outc {
			ks = append(ks, fmt.Sprintf("%s=%d", k, v))
		}
		sort.Strings(ks)
		res.Outcome = strings.Join(ks, ",")
	}
	for idx, s := range l.Ins {
		fmt.Fprintf(progressOut, "{\"p\":%d}\n", idx)
		var in []byte
		text := ""
		if l.Text {
			text = s
		} else {
			var err error
			if in, err = hex.DecodeString(s); err != nil {
				ev.HarnessError("lib case %d: bad hex", cs.ID)
			}
		}
		type ret struct{ out, pan, st string }
		ch := make(chan ret, 1)
		go func() {
			defer func() {
				if p := recover(); p != nil {
					ch <- ret{pan: fmt.Sprint(p), st: string(debug.Stack())}
				}
			}()
			ch <- ret{out: libCall(l.Fn, in, text, l.Flags)}
		}()
		tm := time.NewTimer(watchdog)
		select {
		case r := <-ch:
			tm.Stop()
			if r.pan != "" {
				fn, loc, _ := site(r.st, true)
				res.More = append(res.More, &Violation{Key: "lib/" + l.Fn + "/panic@" + fn + ":" + normMsg(r.pan), Event: idx,
					What: fmt.Sprintf("%s panicked: %s at %s (%s); input %s", l.Fn, r.pan, fn, loc, s), Stack: r.st})
				res.Handled++
				continue
			}
			if strings.Contains(r.out, "BEYOND") || r.out == "beyond-input" || r.out == "negative" {
				// reported size / consumed length outside the input: every caller slices with it
				outc[r.out]++
			} else {
				outc[r.out]++
			}
			res.Handled++
		case <-tm.C:
			gs := dumpGoroutines()
			g := findGor(gs, "main.libCall")
			st := ""
			if g != nil {
				st = g.text
			}
			fn, loc, _ := site(st, false)
			res.Viol = &Violation{Key: "lib/" + l.Fn + "/hang", Event: idx, Stack: st,
				What: fmt.Sprintf("%s did not return within %v (at %s, %s); input %s", l.Fn, watchdog, fn, loc, s)}
			res.Fatal = true
			finish()
			return
		}
	}
	finish()
	res.Reached = true
	return
}

var progressOut *os.File

// ---------------------------------------------------------------------------
// families (parent side)

type libGen struct {
	cases []*Case
	cur   map[string]*Case
	next  func() int
}

func (g *libGen) add(fn, family string, flags uint32, text bool, in string) {
	k := fmt.Sprint(fn, "|", family, "|", flags)
	c := g.cur[k]
	lim := 256
	if strings.Contains(family, "count-pair") || strings.Contains(family, "count-child") {
		lim = 32
	}
	if c == nil || len(c.Lib.Ins) >= lim {
		c = &Case{ID: g.next(), Kind: "lib", Family: family, Tmpl: fn, Lib: &LibCall{Fn: fn, Flags: flags, Text: text}}
		g.cur[k] = c
		g.cases = append(g.cases, c)
	}
	c.Lib.Ins = append(c.Lib.Ins, in)
}

func (g *libGen) bytesFamilies(fn, tname string, pl []byte, fields []field, wide bool, pairs bool) {
	h := hex.EncodeToString
	g.add(fn, tname+"/valid", 0, false, h(pl))
	for k := 0; k < len(pl); k++ {
		g.add(fn, tname+"/trunc", 0, false, h(pl[:k]))
	}
	for _, f := range fields {
		for _, v := range countValues(f.rec, wide) {
			g.add(fn, tname+"/count", 0, false, h(replaceField(pl, f, v.enc)))
		}
	}
	for i := range pl {
		for _, v := range subst8 {
			if pl[i] != v {
				b := append([]byte{}, pl...)
				b[i] = v
				g.add(fn, tname+"/subst", 0, false, h(b))
			}
		}
	}
	countChild(pl, fields, func(name string, b []byte) {
		g.add(fn, tname+"/count-child", 0, false, h(b))
	})
	if pairs {
		// two CompactSize fields replaced at once (offset arithmetic that only wraps
		// when a huge count meets a "negative" length)
		red := []cval{}
		for _, v := range countValues(1, false) {
			switch v.name {
			// (no counts near 2^32 here: a loop of that many cheap iterations takes
			// about as long as the watchdog, which would make the verdict depend on
			// the machine; 2^62+1 iterations never finish anywhere)
			case "0", "1", "fd:ffff", "ff:2^62+1", "ff:2^63", "ff:2^64-1":
				red = append(red, v)
			}
		}
		for k := 2; k <= 64; k++ {
			red = append(red, cval{fmt.Sprintf("ff:2^64-%d", k), csForm(^uint64(0)-uint64(k)+1, 9)})
		}
		for i := 0; i < len(fields); i++ {
			for j := i + 1; j < len(fields); j++ {
				for _, a := range red {
					for _, b := range red {
						// replace the later field first so that offsets stay valid
						p := replaceField(pl, fields[j], b.enc)
						p = replaceField(p, fields[i], a.enc)
						g.add(fn, tname+"/count-pair", 0, false, h(p))
					}
				}
			}
		}
	}
}

func (g *libGen) lengths(fn string, maxLen int) {
	for _, fill := range []byte{0x00, 0x01, 0x02, 0x30, 0xff} {
		for l := 0; l <= maxLen; l++ {
			b := make([]byte, l)
			for i := range b {
				b[i] = fill
			}
			g.add(fn, "len", 0, false, hex.EncodeToString(b))
		}
	}
}

const consensusFlags = script.VER_P2SH | script.VER_DERSIG | script.VER_CLTV | script.VER_CSV | script.VER_WITNESS | script.VER_NULLDUMMY | script.VER_TAPROOT

func (g *libGen) scripts(thorough bool) {
	flagSets := []uint32{consensusFlags, script.STANDARD_VERIFY_FLAGS}
	sigs := [][]byte{{}, {0x51}, {0x01, 0x01, 0x00}}
	p2sh := append(append([]byte{0xa9, 0x14}, make([]byte, 20)...), 0x87)
	emit := func(pk []byte) {
		// the same bytes through the script scanners, and as the signature script of a P2SH spend
		g.add("ScriptScan", fmt.Sprintf("scripts-len%d", len(pk)), 0, false, hex.EncodeToString(pk))
		g.add("VerifyTxScript", fmt.Sprintf("sigscripts-len%d", len(pk)), consensusFlags, false, hex.EncodeToString(append(append([]byte{byte(len(pk))}, pk...), p2sh...)))
		for _, fl := range flagSets {
			for _, s := range sigs {
				in := append([]byte{byte(len(s))}, s...)
				g.add("VerifyTxScript", fmt.Sprintf("scripts-len%d", len(pk)), fl, false, hex.EncodeToString(append(in, pk...)))
			}
		}
	}
	emit(nil)
	for a := 0; a < 256; a++ {
		emit([]byte{byte(a)})
	}
	// every push opcode with 0..5 of its length / data bytes present, after 0-1 leading opcodes
	for _, lead := range [][]byte{nil, {0x51}, {0xac}} {
		for _, op := range []byte{0x01, 0x02, 0x05, 0x4b, 0x4c, 0x4d, 0x4e} {
			for n := 0; n <= 5; n++ {
				for _, fill := range []byte{0x00, 0x01, 0x04, 0xff} {
					sc := append(append([]byte{}, lead...), op)
					for k := 0; k < n; k++ {
						sc = append(sc, fill)
					}
					g.add("ScriptScan", "truncated-push", 0, false, hex.EncodeToString(sc))
					g.add("VerifyTxScript", "truncated-push-sigscript", consensusFlags, false, hex.EncodeToString(append(append([]byte{byte(len(sc))}, sc...), p2sh...)))
					g.add("VerifyTxScript", "truncated-push-pkscript", consensusFlags, false, hex.EncodeToString(append([]byte{0}, sc...)))
				}
			}
		}
	}
	for a := 0; a < 256; a++ {
		for b := 0; b < 256; b++ {
			if !thorough && b%4 != a%4 && !(a < 0x60 && b < 0x60) {
				continue
			}
			emit([]byte{byte(a), byte(b)})
		}
	}
	// length 3 and 4 over a reduced opcode alphabet
	red := []byte{0x00, 0x01, 0x02, 0x4b, 0x4c, 0x4d, 0x4e, 0x4f, 0x51, 0x60, 0x63, 0x64, 0x67, 0x68, 0x69, 0x6a, 0x6b, 0x6c, 0x6d, 0x73, 0x76,
		0x7e, 0x7f, 0x82, 0x87, 0x8b, 0x93, 0x95, 0x9a, 0xa9, 0xab, 0xac, 0xad, 0xae, 0xaf, 0xb1, 0xb2, 0xba, 0xbb, 0xff}
	for _, a := range red {
		for _, b := range red {
			for _, c := range red {
				emit([]byte{a, b, c})
			}
		}
	}
	if thorough {
		r2 := []byte{0x00, 0x01, 0x4c, 0x4d, 0x4e, 0x51, 0x63, 0x67, 0x68, 0x6b, 0x6c, 0x76, 0x7e, 0x82, 0x93, 0xac, 0xae, 0xaf, 0xb1, 0xb2, 0xba, 0xff}
		for _, a := range r2 {
			for _, b := range r2 {
				for _, c := range r2 {
					for _, d := range r2 {
						emit([]byte{a, b, c, d})
					}
				}
			}
		}
	}
}

// witnessStacks: taproot / segwit v0 spends whose witness items have every length
// around the structural limits (control block 33+32k, 32-byte programs, annex), as a
// node sees them in a tx or block message. VerifyTxScript runs in goroutines without
// recover(): a panic here ends the process.
func (g *libGen) witnessStacks() {
	enc := func(pk []byte, items ...[]byte) string {
		b := []byte{byte(len(items))}
		for _, it := range items {
			b = append(append(b, byte(len(it))), it...)
		}
		return hex.EncodeToString(append(b, pk...))
	}
	fill := func(n int, first byte) []byte {
		b := make([]byte, n)
		for i := range b {
			b[i] = 0x79
		}
		if n > 0 {
			b[0] = first
		}
		return b
	}
	p2tr := append([]byte{0x51, 0x20}, fill(32, 0x79)...)
	p2wsh := append([]byte{0x00, 0x20}, fill(32, 0x79)...)
	p2wpkh := append([]byte{0x00, 0x14}, fill(20, 0x79)...)
	v2 := append([]byte{0x52, 0x20}, fill(32, 0x79)...)
	for clen := 0; clen <= 98; clen++ {
		for _, first := range []byte{0xc0, 0xc1, 0x50, 0x00} {
			c := fill(clen, first)
			g.add("VerifyTxScript.witness", "taproot-control", consensusFlags, false, enc(p2tr, []byte{0x51}, c))
			g.add("VerifyTxScript.witness", "taproot-control", consensusFlags, false, enc(p2tr, []byte{0x51}, c, []byte{0x50, 0x01}))
			g.add("VerifyTxScript.witness", "taproot-control", consensusFlags, false, enc(p2tr, c))
			g.add("VerifyTxScript.witness", "taproot-control", consensusFlags, false, enc(p2tr, c, []byte{0x50}))
			g.add("VerifyTxScript.witness", "taproot-control", consensusFlags, false, enc(p2tr, nil, c))
			g.add("VerifyTxScript.witness", "v0-items", consensusFlags, false, enc(p2wsh, c))
			g.add("VerifyTxScript.witness", "v0-items", consensusFlags, false, enc(p2wsh, []byte{0x51}, c))
			g.add("VerifyTxScript.witness", "v0-items", consensusFlags, false, enc(p2wpkh, c, fill(33, 0x02)))
			g.add("VerifyTxScript.witness", "v0-items", consensusFlags, false, enc(p2wpkh, fill(71, 0x30), c))
			g.add("VerifyTxScript.witness", "future-version", consensusFlags, false, enc(v2, c))
		}
	}
	for n := 0; n <= 4; n++ {
		var items [][]byte
		for k := 0; k < n; k++ {
			items = append(items, nil)
		}
		for _, pk := range [][]byte{p2tr, p2wsh, p2wpkh, v2} {
			g.add("VerifyTxScript.witness", "empty-items", consensusFlags, false, enc(pk, items...))
		}
	}
	// signature items with every hash-type byte that selects a digest algorithm branch, on
	// every position of spending transactions with 1-3 inputs and 0-2 outputs (SIGHASH_SINGLE
	// with the input index below / equal to / above the number of outputs): the digest code
	// runs on attacker-chosen positions before any signature is verified
	der := append(append([]byte{0x30, 0x44, 0x02, 0x20}, fill(32, 0x11)...), append([]byte{0x02, 0x20}, fill(32, 0x22)...)...)
	for nin := 1; nin <= 3; nin++ {
		for nout := 0; nout <= 2; nout++ {
			for idx := 0; idx < nin; idx++ {
				shape := hex.EncodeToString([]byte{byte(nin), byte(nout), byte(idx)})
				for _, ht := range []byte{0x00, 0x01, 0x02, 0x03, 0x04, 0x80, 0x81, 0x82, 0x83, 0x84, 0xff} {
					sig65 := append(fill(64, 0x33), ht)
					g.add("VerifyTxScript.witness.shape", "hashtype-positions", consensusFlags, false, shape+enc(p2tr, sig65))
					g.add("VerifyTxScript.witness.shape", "hashtype-positions", consensusFlags, false, shape+enc(p2tr, sig65, []byte{0x50, 0x01}))
					g.add("VerifyTxScript.witness.shape", "hashtype-positions", consensusFlags, false, shape+enc(p2wpkh, append(append([]byte{}, der...), ht), fill(33, 0x02)))
				}
				g.add("VerifyTxScript.witness.shape", "hashtype-positions", consensusFlags, false, shape+enc(p2tr, fill(64, 0x33)))
			}
		}
	}
}

func (g *libGen) addresses() {
	tm := []string{
		"1BvBMSEYstWetqTFn5Au4m4GFg7xJaNVN2", "3J98t1WpEZ73CNmQviecrnyiWrnqRhWNLy",
		"bc1qw508d6qejxtdg4y5r3zarvary0c5xw7kv8f3t4", "bc1p0xlxvlhemja6c4dqv22uapctqupfhlxm9h8z3k2e72q4k9hcz7vqzk5jj0",
		"tb1qw508d6qejxtdg4y5r3zarvary0c5xw7kxpjzsx", "BC1QW508D6QEJXTDG4Y5R3ZARVARY0C5XW7KV8F3T4",
	}
	alpha := []byte{'1', 'b', 'c', 'q', 'p', 'O', 'l', '0', 'z', 'Z', ' ', 0x00, 0x7f, 0xff}
	for _, t := range tm {
		g.add("NewAddrFromString", "addr/valid", 0, true, t)
		for k := 0; k < len(t); k++ {
			g.add("NewAddrFromString", "addr/trunc", 0, true, t[:k])
		}
		for i := 0; i < len(t); i++ {
			for _, a := range alpha {
				if t[i] != a {
					b := []byte(t)
					b[i] = a
					g.add("NewAddrFromString", "addr/subst", 0, true, string(b))
				}
			}
		}
		g.add("NewAddrFromString", "addr/long", 0, true, t+t+t+t)
	}
	for l := 0; l <= 100; l++ {
		for _, c := range []byte{'1', 'q', 'z', 0xff} {
			g.add("NewAddrFromString", "addr/len", 0, true, strings.Repeat(string([]byte{c}), l))
			g.add("NewAddrFromString", "addr/len-bc1", 0, true, "bc1"+strings.Repeat(string([]byte{c}), l))
		}
	}
}

func libCases(w *world, next func() int, thorough bool) []*Case {
	g := &libGen{cur: map[string]*Case{}, next: next}
	// hang-prone families first (they overlap with the rest of the run)
	tb, tf := txFields(w.txT, true, 0, "")
	wb, wf := txFields(w.txW, true, 0, "")
	for _, fn := range []string{"TxSize", "NewTx"} {
		g.bytesFamilies(fn, "tx", tb, tf, true, true)
		g.bytesFamilies(fn, "tx-wit", wb, wf, true, thorough)
		g.lengths(fn, 24)
	}
	blk := w.n1.Bytes()
	bf := []field{{80, 1, 60, "txcount"}}
	off := 81
	for _, t := range w.n1.Txs {
		b, f := txFields(t, true, off, "")
		bf = append(bf, f...)
		off += len(b)
	}
	g.bytesFamilies("NewBlock", "block", blk, bf, true, false)
	g.lengths("NewBlock", 100)

	sig, _ := hex.DecodeString("3045022100c12a7d54972f26d14cb311339b5122f8c187417dde1e8efb6841f55c34220ae0022066632c5cd4161efa3a2837764eee9eb84975dd54c2de2865e9752585c53e7cce")
	g.bytesFamilies("Signature.ParseBytes", "der", sig, []field{{1, 1, 1, "len"}, {3, 1, 1, "lenR"}, {38, 1, 1, "lenS"}}, false, false)
	g.lengths("Signature.ParseBytes", 80)
	pk33, _ := hex.DecodeString("0279be667ef9dcbbac55a06295ce870b07029bfcdb2dce28d959f2815b16f81798")
	pk65, _ := hex.DecodeString("0479be667ef9dcbbac55a06295ce870b07029bfcdb2dce28d959f2815b16f81798483ada7726a3c4655da4fbfc0e1108a8fd17b448a68554199c47d08ffb10d4b8")
	g.bytesFamilies("XY.ParsePubkey", "compressed", pk33, nil, false, false)
	g.bytesFamilies("XY.ParsePubkey", "uncompressed", pk65, nil, false, false)
	g.lengths("XY.ParsePubkey", 70)
	g.addresses()
	g.witnessStacks()
	g.scripts(thorough)
	return g.cases
}

// verifyShaped: the witness case of "VerifyTxScript.witness" on a spending transaction with
// several inputs / outputs, the witness and the judged script on input idx; the other inputs
// spend anyone-can-spend outputs.
func verifyShaped(t *reftx.Tx, idx int, in []byte, flags uint32) string {
	p := 1
	for k := 0; k < int(in[0]); k++ {
		if p >= len(in) || p+1+int(in[p]) > len(in) {
			return "bad-case"
		}
		t.In[idx].Witness = append(t.In[idx].Witness, in[p+1:p+1+int(in[p])])
		p += 1 + int(in[p])
	}
	pk := in[p:]
	raw := t.Serialize(true)
	tx, n := btc.NewTx(raw)
	if tx == nil || n != len(raw) {
		return "tx-refused"
	}
	tx.SetHash(raw)
	tx.AllocVerVars()
	for k := range t.In {
		if k == idx {
			tx.Spent_outputs = append(tx.Spent_outputs, &btc.TxOut{Value: 1000, Pk_script: pk})
		} else {
			tx.Spent_outputs = append(tx.Spent_outputs, &btc.TxOut{Value: 1000, Pk_script: []byte{0x51}})
		}
	}
	if script.VerifyTxScript(pk, &script.SigChecker{Amount: 1000, Idx: idx, Tx: tx}, flags) {
		return "true"
	}
	return "false"
}
