package main

import (
	"crypto/sha256"
	"fmt"

	"verif/internal/ev"
	"verif/internal/minichain"
	"verif/ref/refchain"
	"verif/ref/refhash"
	"verif/ref/refsig"
	"verif/ref/reftx"
)

// Coins of every standard kind in the node's UTXO set (created by one funding
// transaction in block 107 of the prefix chain) and the family of "tx" messages that
// spend two or three of them with, per input, a signature that is valid / wrong /
// of a wrong length / of an undefined hash type / missing. Digests and signatures
// come from the reference packages (refhash, refsig: RFC 6979 and BIP340 with a fixed
// aux), so the family is the same on every run.

const (
	kP2PKH = iota
	kP2WPKH
	kP2WSH
	kP2TR
	nKinds
)

var kindName = [nKinds]string{"p2pkh", "p2wpkh", "p2wsh", "p2tr"}

const coinsPerKind = 3
const coinValue = 4e8

type coin struct {
	kind   int
	priv   []byte
	pub    []byte // compressed (ECDSA kinds) or x-only (taproot)
	script []byte // output script
	ws     []byte // witness script (p2wsh)
	vout   uint32
}

func coinKey(kind, n int) []byte {
	k := make([]byte, 32)
	for i := range k {
		k[i] = byte(0x21 + 7*i + 31*kind + 101*n)
	}
	k[0] &= 0x7f
	return k
}

func makeCoins() []coin {
	var cs []coin
	for kind := 0; kind < nKinds; kind++ {
		for n := 0; n < coinsPerKind; n++ {
			c := coin{kind: kind, priv: coinKey(kind, n), vout: uint32(len(cs))}
			c.pub = refsig.PubkeyFromPriv(c.priv, true)
			h := refhash.Hash160(c.pub)
			switch kind {
			case kP2PKH:
				c.script = append(append([]byte{0x76, 0xa9, 0x14}, h[:]...), 0x88, 0xac)
			case kP2WPKH:
				c.script = append([]byte{0x00, 0x14}, h[:]...)
			case kP2WSH:
				c.ws = append(append([]byte{0x21}, c.pub...), 0xac)
				wh := sha256.Sum256(c.ws)
				c.script = append([]byte{0x00, 0x20}, wh[:]...)
			case kP2TR:
				x, _ := refsig.XOnlyFromPriv(c.priv)
				c.pub = x
				c.script = append([]byte{0x51, 0x20}, x...)
			}
			if c.pub == nil {
				ev.HarnessError("coin key out of range")
			}
			cs = append(cs, c)
		}
	}
	return cs
}

// fundingTx spends one mature anyone-can-spend coinbase into the coins.
func fundingTx(cb [32]byte, coins []coin) *reftx.Tx {
	t := &reftx.Tx{Version: 2, In: []reftx.In{{Prev: cb, Vout: 0, Sequence: 0xffffffff}}}
	for _, c := range coins {
		t.Out = append(t.Out, reftx.Out{Value: coinValue, Script: c.script})
	}
	return t
}

var _ = refchain.Outpoint{}

// sigVariants per kind. "ht=XX" for ECDSA is a signature made FOR that hash type
// (consensus accepts undefined ECDSA hash types outside STRICTENC); for taproot an
// undefined hash type has no digest: the byte is appended to a signature of the
// default digest.
var ecdsaVariants = []string{"valid", "wrong", "short", "ht=00", "ht=04", "ht=80", "empty"}
var tapVariants = []string{"valid", "valid-all", "wrong", "len63", "len66", "ht=04", "ht=84", "ht=ff", "empty"}

func variantsOf(kind int) []string {
	if kind == kP2TR {
		return tapVariants
	}
	return ecdsaVariants
}

type spend struct {
	tx    *reftx.Tx
	coins []coin
	spent []reftx.Out
	cache map[string][]byte
}

func newSpend(fund [32]byte, cs []coin) *spend {
	s := &spend{coins: cs, cache: map[string][]byte{}}
	s.tx = &reftx.Tx{Version: 2}
	var sum uint64
	for _, c := range cs {
		s.tx.In = append(s.tx.In, reftx.In{Prev: fund, Vout: c.vout, Sequence: 0xfffffffd})
		s.spent = append(s.spent, reftx.Out{Value: coinValue, Script: c.script})
		sum += coinValue
	}
	s.tx.Out = []reftx.Out{{Value: sum - 1e5, Script: []byte{0x51}}}
	return s
}

// ecdsaSig: DER signature of input i for the given hash type byte, plus that byte.
func (s *spend) ecdsaSig(i int, ht byte) []byte {
	k := fmt.Sprint("e", i, ht)
	if v, ok := s.cache[k]; ok {
		return v
	}
	c := s.coins[i]
	var d [32]byte
	switch c.kind {
	case kP2PKH:
		d = refhash.Legacy(s.tx, c.script, i, uint32(ht))
	case kP2WPKH:
		h := refhash.Hash160(c.pub)
		code := append(append([]byte{0x76, 0xa9, 0x14}, h[:]...), 0x88, 0xac)
		d = refhash.BIP143(s.tx, code, coinValue, i, uint32(ht))
	case kP2WSH:
		d = refhash.BIP143(s.tx, c.ws, coinValue, i, uint32(ht))
	}
	r, sv := refsig.ECDSASignRFC6979(c.priv, d[:])
	v := append(refsig.SerializeDER(r, sv), ht)
	s.cache[k] = v
	return v
}

func (s *spend) tapSig(i int, ht byte) []byte {
	k := fmt.Sprint("t", i, ht)
	if v, ok := s.cache[k]; ok {
		return v
	}
	d, ok := refhash.Taproot(s.tx, s.spent, i, ht, nil, nil)
	if !ok {
		ev.HarnessError("taproot digest for hash type %x", ht)
	}
	aux := make([]byte, 32)
	v := refsig.SchnorrSign(s.coins[i].priv, d[:], aux)
	if len(v) != 64 {
		ev.HarnessError("schnorr signing failed")
	}
	s.cache[k] = v
	return v
}

func clone(b []byte) []byte { return append([]byte{}, b...) }

// apply fills scriptSig / witness of input i according to the variant.
func (s *spend) apply(t *reftx.Tx, i int, variant string) {
	c := s.coins[i]
	var sig []byte
	if c.kind == kP2TR {
		switch variant {
		case "valid":
			sig = clone(s.tapSig(i, 0))
		case "valid-all":
			sig = append(clone(s.tapSig(i, 1)), 1)
		case "wrong":
			sig = clone(s.tapSig(i, 0))
			sig[40] ^= 0x10
		case "len63":
			sig = clone(s.tapSig(i, 0))[:63]
		case "len66":
			sig = append(clone(s.tapSig(i, 1)), 1, 1)
		case "ht=04":
			sig = append(clone(s.tapSig(i, 0)), 0x04)
		case "ht=84":
			sig = append(clone(s.tapSig(i, 0)), 0x84)
		case "ht=ff":
			sig = append(clone(s.tapSig(i, 0)), 0xff)
		case "empty":
			t.In[i].Witness = nil
			return
		}
		t.In[i].Witness = [][]byte{sig}
		return
	}
	switch variant {
	case "valid":
		sig = clone(s.ecdsaSig(i, 1))
	case "wrong":
		sig = clone(s.ecdsaSig(i, 1))
		sig[len(sig)-6] ^= 0x10 // inside S: still DER, no longer a signature
	case "short":
		v := s.ecdsaSig(i, 1)
		sig = append(clone(v[:len(v)-2]), 1) // last byte of S dropped: not DER
	case "ht=00":
		sig = clone(s.ecdsaSig(i, 0x00))
	case "ht=04":
		sig = clone(s.ecdsaSig(i, 0x04))
	case "ht=80":
		sig = clone(s.ecdsaSig(i, 0x80))
	case "empty":
		t.In[i].Script, t.In[i].Witness = nil, nil
		return
	}
	switch c.kind {
	case kP2PKH:
		t.In[i].Script = append(append(append([]byte{byte(len(sig))}, sig...), byte(len(c.pub))), c.pub...)
	case kP2WPKH:
		t.In[i].Witness = [][]byte{sig, c.pub}
	case kP2WSH:
		t.In[i].Witness = [][]byte{sig, c.ws}
	}
}

func (s *spend) build(variants []string) []byte {
	t := &reftx.Tx{Version: s.tx.Version, LockTime: s.tx.LockTime, Out: s.tx.Out}
	t.In = append([]reftx.In{}, s.tx.In...)
	for i, v := range variants {
		s.apply(t, i, v)
	}
	return t.Serialize(true)
}

// sigFamily: all variant combinations for every ordered pair of kinds, and a selection
// for three inputs.
func (g *caseGen) sigFamily(cx *ctxt, thorough bool) {
	w := g.w
	fund := w.fund.TxID()
	pick := func(kinds ...int) []coin {
		used := map[int]int{}
		var cs []coin
		for _, k := range kinds {
			cs = append(cs, w.coins[k*coinsPerKind+used[k]])
			used[k]++
		}
		return cs
	}
	for a := 0; a < nKinds; a++ {
		for b := 0; b < nKinds; b++ {
			s := newSpend(fund, pick(a, b))
			for _, va := range variantsOf(a) {
				for _, vb := range variantsOf(b) {
					g.add(fmt.Sprintf("sig2/%s:%s,%s:%s", kindName[a], va, kindName[b], vb), "tx-signed", cx, mev("tx", s.build([]string{va, vb})))
				}
			}
		}
	}
	sel := func(kind int) []string {
		if kind == kP2TR {
			return []string{"valid", "wrong", "ht=04", "ht=ff"}
		}
		return []string{"valid", "wrong", "ht=04"}
	}
	triples := [][3]int{{kP2TR, kP2TR, kP2WPKH}, {kP2PKH, kP2WSH, kP2TR}, {kP2TR, kP2TR, kP2TR}}
	if thorough {
		triples = append(triples, [3]int{kP2WPKH, kP2TR, kP2PKH}, [3]int{kP2WSH, kP2WSH, kP2TR}, [3]int{kP2PKH, kP2PKH, kP2WPKH})
	}
	for _, tr := range triples {
		s := newSpend(fund, pick(tr[0], tr[1], tr[2]))
		for _, va := range sel(tr[0]) {
			for _, vb := range sel(tr[1]) {
				for _, vc := range sel(tr[2]) {
					g.add(fmt.Sprintf("sig3/%s:%s,%s:%s,%s:%s", kindName[tr[0]], va, kindName[tr[1]], vb, kindName[tr[2]], vc), "tx-signed", cx,
						mev("tx", s.build([]string{va, vb, vc})))
				}
			}
		}
	}
}

// ---------------------------------------------------------------------------
// bursts against the bounded queues the handlers feed
//
// client/network and client/txpool make these buffered channels:
//   NetTxs (2048)   fed by ParseTxNet inside txpool.NeedThisTxExt, i.e. with
//                   txpool.TxMutex locked; non-blocking (drops when full)
//   NetBlocks (512) fed by queueNewBlock: from netBlockReceived after MutexRcv was
//                   released, from ProcessCmpctBlock / ProcessBlockTxn with MutexRcv
//                   held; blocking by design (only for heights < tip+256, which needs
//                   that many blocks with valid proof of work)
//   c.GetMP (1), txpool.GetMPInProgressTicket (1), c.writing_thread_push (1):
//                   all non-blocking selects; the first two are fed only for peers that
//                   sent an ENCRYPTED authack (not in the harness' message alphabet)
// Scenario: the main thread stops reading ("nodrain"), cap+2 distinct well-formed
// messages arrive, every handler must return and every mutex must be free after each
// one; reading resumes ("drain") and one more message must be processed normally.

func (g *caseGen) burstFamily(cx *ctxt, withBlocks bool) {
	w := g.w
	// NetTxs: parseable transactions with distinct txids; they are queued before any
	// input lookup or script check
	evs := []Event{{T: "nodrain"}}
	for j := 0; j < 2048+2; j++ {
		t := &reftx.Tx{Version: 2, In: []reftx.In{{Prev: [32]byte{0xb0, byte(j), byte(j >> 8), 0x5e}, Vout: uint32(j % 3), Sequence: 0xffffffff}},
			Out: []reftx.Out{{Value: 1000 + uint64(j), Script: []byte{0x51}}}}
		evs = append(evs, mev("tx", t.Serialize(true)))
	}
	evs = append(evs, Event{T: "drain"})
	s := newSpend(w.fund.TxID(), []coin{w.coins[kP2WPKH*coinsPerKind], w.coins[kP2TR*coinsPerKind]})
	evs = append(evs, mev("tx", s.build([]string{"valid", "valid"})))
	g.add("burst/NetTxs=2048+2", "burst-tx", cx, evs...)

	if !withBlocks {
		return
	}
	// NetBlocks: distinct valid blocks on the tip (coinbase only); the 513th send waits
	// for room while holding nothing - back-pressure, the harness makes room
	evs = []Event{{T: "nodrain"}}
	for j := 0; j < 512+2; j++ {
		b := minichain.Build(minichain.Spec{Prev: w.tipH, Height: 111, Tag: byte(j), Time: minichain.GenesisTime + 600*111 + 1 + uint32(j), CbValue: -1})
		evs = append(evs, mev("block", b.Bytes()))
	}
	evs = append(evs, Event{T: "drain"}, mev("ping", []byte{1, 2, 3, 4, 5, 6, 7, 8}))
	g.add("burst/NetBlocks=512+2", "burst-block", cx, evs...)
}
