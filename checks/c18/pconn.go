package main

import (
	"io"
	"net"
	"sync"
	"time"
)

// pconn is the in-memory net.Conn the real OneConnection.Run() loop reads from.
// The harness owns it completely:
//   - Read hands out the bytes of the current event; when nothing is left it
//     signals "parked" (= every handler for the bytes fed so far has returned and
//     Run came back for more) and blocks until the next event. Read deadlines are
//     ignored: a quiet 10 ms on the wire is an explicit "idle" event instead.
//   - Write (called by the connection's writing thread) discards.
//   - SetWriteDeadline is what Run calls right after its loop ended; the hook wakes
//     the writing thread so that tear-down does not wait for its 10 ms poll.
type pconn struct {
	mu       sync.Mutex
	in       []byte
	timeouts int
	eof      bool
	boom     bool // self-test: panic inside Read
	parked   chan struct{}
	wake     chan struct{}
	closes   int
	wrote    int
	reads    int
	onWDL    func()
	pend     []byte   // node output not yet parsed into messages
	pings    [][]byte // payloads of the "ping" messages the node sent, in order
	sentCmds int
}

func newPconn() *pconn {
	return &pconn{parked: make(chan struct{}, 1), wake: make(chan struct{}, 1)}
}

type tmoErr struct{}

func (tmoErr) Error() string   { return "i/o timeout (c18 idle event)" }
func (tmoErr) Timeout() bool   { return true }
func (tmoErr) Temporary() bool { return true }

func (p *pconn) Read(b []byte) (int, error) {
	for {
		p.mu.Lock()
		p.reads++
		if p.boom {
			p.boom = false
			p.mu.Unlock()
			panic("c18 self-test panic inside Conn.Read")
		}
		if len(p.in) > 0 {
			n := copy(b, p.in)
			p.in = p.in[n:]
			p.mu.Unlock()
			return n, nil
		}
		if p.timeouts > 0 {
			p.timeouts--
			p.mu.Unlock()
			return 0, tmoErr{}
		}
		if p.eof {
			p.mu.Unlock()
			return 0, io.EOF
		}
		p.mu.Unlock()
		select {
		case p.parked <- struct{}{}:
		default:
		}
		<-p.wake
	}
}

// feed hands the next event to the reader. Exactly one of the arguments is used.
func (p *pconn) feed(data []byte, idle bool, eof bool, boom bool) {
	p.mu.Lock()
	p.in = append(p.in[:0:0], data...)
	if idle {
		p.timeouts++
	}
	if eof {
		p.eof = true
	}
	if boom {
		p.boom = true
	}
	p.mu.Unlock()
	select {
	case <-p.parked: // stale token
	default:
	}
	select {
	case p.wake <- struct{}{}:
	default:
	}
}

// Write is called by the connection's writing thread. The byte stream is cut into
// messages only to learn the nonces of the pings the node sends (a peer sees them too).
func (p *pconn) Write(b []byte) (int, error) {
	p.mu.Lock()
	p.wrote += len(b)
	p.pend = append(p.pend, b...)
	for len(p.pend) >= 24 {
		n := int(uint32(p.pend[16])|uint32(p.pend[17])<<8|uint32(p.pend[18])<<16|uint32(p.pend[19])<<24) & 0x7fffffff
		if len(p.pend) < 24+n {
			break
		}
		p.sentCmds++
		if string(p.pend[4:8]) == "ping" && p.pend[8] == 0 {
			p.pings = append(p.pings, append([]byte{}, p.pend[24:24+n]...))
		}
		p.pend = append(p.pend[:0:0], p.pend[24+n:]...)
	}
	p.mu.Unlock()
	return len(b), nil
}

func (p *pconn) sentPings() [][]byte {
	p.mu.Lock()
	defer p.mu.Unlock()
	return append([][]byte{}, p.pings...)
}

func (p *pconn) Close() error {
	p.mu.Lock()
	p.closes++
	p.mu.Unlock()
	return nil
}

func (p *pconn) closeCalls() int {
	p.mu.Lock()
	defer p.mu.Unlock()
	return p.closes
}

type pAddr string

func (a pAddr) Network() string { return "c18" }
func (a pAddr) String() string  { return string(a) }

func (p *pconn) LocalAddr() net.Addr               { return pAddr("10.0.0.1:18444") }
func (p *pconn) RemoteAddr() net.Addr              { return pAddr("93.184.216.34:50001") }
func (p *pconn) SetDeadline(t time.Time) error     { return nil }
func (p *pconn) SetReadDeadline(t time.Time) error { return nil }
func (p *pconn) SetWriteDeadline(t time.Time) error {
	if p.onWDL != nil {
		p.onWDL()
	}
	return nil
}
