#!/bin/bash
# C18 build overlay: adds accessor files (build tag verif) to four gocoin packages.
# Nothing in the tree is replaced; the files only expose unexported state that the
# oracle needs (lock probes, connection list registration, package-state reset,
# outcome read-back). usage: overlay.sh <builddir> <overlay.json> <repo>
set -eu
bd="$1"; ov="$2"; repo="$3"
mkdir -p "$bd/c18ov"

cat > "$bd/c18ov/network.go" <<'GO'
//go:build verif

package network

import (
	"reflect"
	"sync"
	"sync/atomic"
	"unsafe"

	"github.com/piotrnar/gocoin/client/peersdb"
	"github.com/piotrnar/gocoin/lib/btc"
	"github.com/piotrnar/gocoin/lib/chain"
)

// VerifNewConnection returns a connection object in exactly the state
// NewConnection(ad) produces, but reuses the memory of a finished one: allocating
// the 16 MiB send buffer anew for each of ~10^5 connections costs 10 ms of page
// faults each. Every field except sendBuf is copied from a pristine object made by
// the real NewConnection (maps and channels are made afresh, with the same
// capacity), so fields added to NewConnection later are followed automatically.
var verifPristine *OneConnection

func VerifNewConnection(old *OneConnection, ad *peersdb.PeerAddr) *OneConnection {
	if old == nil {
		return NewConnection(ad)
	}
	if verifPristine == nil {
		verifPristine = NewConnection(nil)
	}
	verifCopy(reflect.ValueOf(old).Elem(), reflect.ValueOf(verifPristine).Elem())
	old.PeerAddr = ad
	old.ConnID = atomic.AddUint32(&LastConnId, 1)
	return old
}

func verifCopy(dst, src reflect.Value) {
	t := src.Type()
	for i := 0; i < t.NumField(); i++ {
		f := t.Field(i)
		if f.Name == "sendBuf" {
			continue
		}
		d := reflect.NewAt(f.Type, unsafe.Pointer(dst.Field(i).UnsafeAddr())).Elem()
		s := reflect.NewAt(f.Type, unsafe.Pointer(src.Field(i).UnsafeAddr())).Elem()
		switch f.Type.Kind() {
		case reflect.Struct:
			if f.Type.PkgPath() == "" || f.Type.PkgPath() == t.PkgPath() {
				verifCopy(d, s)
			} else {
				d.Set(s)
			}
		case reflect.Map:
			if s.IsNil() {
				d.Set(reflect.Zero(f.Type))
			} else {
				d.Set(reflect.MakeMap(f.Type))
			}
		case reflect.Chan:
			if s.IsNil() {
				d.Set(reflect.Zero(f.Type))
			} else {
				d.Set(reflect.MakeChan(f.Type, s.Cap()))
			}
		default:
			d.Set(s)
		}
	}
}

// VerifAddConn / VerifDelConn do what tcp_server does around conn.Run().
func VerifAddConn(c *OneConnection) {
	Mutex_net.Lock()
	c.addToList()
	InConsActive++
	Mutex_net.Unlock()
}

func VerifDelConn(c *OneConnection) {
	Mutex_net.Lock()
	c.delFromList()
	InConsActive--
	Mutex_net.Unlock()
}

// VerifKick wakes the writing thread the way SendRawMsg does (it otherwise polls
// every 10 ms); only used to shorten connection tear-down.
func VerifKick(c *OneConnection) {
	if c.writing_thread_push != nil {
		select {
		case c.writing_thread_push <- true:
		default:
		}
	}
}

type VerifConnOutcome struct {
	Broken, Banit, Dead  bool
	BanReason, WhyDisc   string
	Misbehave            int
	RecvHdrLen           uint
	RecvMidPayload       bool
	VersionReceived      bool
	Ticks                uint64
	BlocksInProgress     int
	UnfinishedGetdata    bool
	Authorized, HasAES   bool
	SendBufProd, BufCons int
}

// VerifOutcome reads connection state WITHOUT taking c.Mutex (the caller has
// established that no other goroutine is running on c).
func VerifOutcome(c *OneConnection) (o VerifConnOutcome) {
	o.Broken, o.Banit, o.Dead = c.broken, c.banit, c.dead
	o.BanReason, o.WhyDisc = c.ban_reason, c.why_disconnected
	o.Misbehave = c.misbehave
	o.RecvHdrLen = c.recv.hdr_len
	o.RecvMidPayload = c.recv.dat != nil
	o.VersionReceived = c.X.VersionReceived
	o.Ticks = c.X.Ticks
	o.BlocksInProgress = len(c.GetBlockInProgress)
	o.UnfinishedGetdata = c.unfinished_getdata != nil
	o.Authorized = c.X.Authorized
	o.HasAES = c.aesData != nil
	o.SendBufProd, o.BufCons = c.SendBufProd, c.SendBufCons
	return
}

// VerifConnMutex exposes the connection mutex for the lock probe.
func VerifConnMutex(c *OneConnection) *sync.Mutex { return &c.Mutex }

// VerifGlobalLocks lists every package-level mutex of the network package.
func VerifGlobalLocks() map[string]*sync.Mutex {
	return map[string]*sync.Mutex{
		"network.Mutex_net":          &Mutex_net,
		"network.MutexRcv":           &MutexRcv,
		"network.HammeringMutex":     &HammeringMutex,
		"network.ExternalIpMutex":    &ExternalIpMutex,
		"network.CachedBlocksMutex":  &CachedBlocksMutex,
		"network.CompactBlocksMutex": &CompactBlocksMutex,
		"network.FriendsAccess":      &FriendsAccess,
	}
}

// VerifReset puts the package-level state back to what client/main.go sets up at
// start: every block of the index is "received", the last header is the tip.
func VerifReset(index map[[btc.Uint256IdxLen]byte]*chain.BlockTreeNode, tip *chain.BlockTreeNode) {
	OpenCons = make(map[uint64]*OneConnection)
	openConsByID = make(map[uint32]*OneConnection)
	InConsActive, OutConsActive = 0, 0
	RecentlyDisconencted = make(map[[4]byte]*RecentlyDisconenctedType)
	ReceivedBlocks = make(map[btc.BIDX]*OneReceivedBlock, 2*len(index))
	for k := range index {
		ReceivedBlocks[k] = &OneReceivedBlock{}
	}
	BlocksToGet = make(map[btc.BIDX]*OneBlockToGet)
	BlocksToGetFailed = make(map[btc.BIDX]struct{})
	IndexToBlocksToGet = make(map[uint32][]btc.BIDX)
	LowestIndexToBlocksToGet.Store(0)
	LastCommitedHeader = tip
	CachedBlocksIdx = make(map[uint32][]*BlockRcvd)
	CachedMinHeight, CachedMaxHeight = 0, 0
	CachedBlocksBytes.Store(0)
	MaxCachedBlocksSize.Store(0)
	DiscardedBlocks = make(map[btc.BIDX]bool)
	HeadersReceived.Store(0)
	ExternalIp4 = make(map[uint32][2]uint)
	GetMPInProgressConnID.Store(0)
	for len(NetBlocks) > 0 {
		<-NetBlocks
	}
	for len(NetTxs) > 0 {
		<-NetTxs
	}
}

func VerifSetFriends(pubkeys [][]byte) {
	FriendsAccess.Lock()
	AuthPubkeys = pubkeys
	FriendsAccess.Unlock()
}

func VerifSetNonce(n [8]byte) { nonce = n }

func VerifB2GCount() int { return len(BlocksToGet) }
GO

cat > "$bd/c18ov/peersdb.go" <<'GO'
//go:build verif

package peersdb

import "sync"

func VerifLocks() map[string]*sync.Mutex {
	return map[string]*sync.Mutex{"peersdb.peerdb_mutex": &peerdb_mutex}
}
GO

cat > "$bd/c18ov/common.go" <<'GO'
//go:build verif

package common

import "sync"

func VerifLocks() map[string]*sync.Mutex {
	return map[string]*sync.Mutex{
		"common.mutex_cfg":    &mutex_cfg,
		"common.bw_mutex":     &bw_mutex,
		"common.CounterMutex": &CounterMutex,
		"common.Last.Mutex":   &Last.Mutex,
	}
}
GO

cat > "$bd/c18ov/chain.go" <<'GO'
//go:build verif

package chain

import "sync"

func (ch *Chain) VerifLocks() map[string]*sync.Mutex {
	return map[string]*sync.Mutex{
		"chain.BlockIndexAccess":   &ch.BlockIndexAccess,
		"chain.blockTreeAccess":    &ch.blockTreeAccess,
		"chain.Blocks.mutex":       &ch.Blocks.mutex,
		"chain.Blocks.disk_access": &ch.Blocks.disk_access,
	}
}
GO

python3 - "$ov" "$repo" "$bd" <<'PY'
import json, sys
ov, repo, bd = sys.argv[1:4]
d = json.load(open(ov))
r = d.setdefault("Replace", {})
r[repo + "/client/network/zz_verif_c18.go"] = bd + "/c18ov/network.go"
r[repo + "/client/peersdb/zz_verif_c18.go"] = bd + "/c18ov/peersdb.go"
r[repo + "/client/common/zz_verif_c18.go"] = bd + "/c18ov/common.go"
r[repo + "/lib/chain/zz_verif_c18.go"] = bd + "/c18ov/chain.go"
json.dump(d, open(ov, "w"))
PY
