package main

import (
	"crypto/sha256"
	"encoding/binary"
	"encoding/hex"
	"fmt"
	"math/big"
	"sort"

	"verif/internal/ev"
	"verif/internal/minichain"
	"verif/ref/refchain"
	"verif/ref/reftx"
)

var params = refchain.DefaultParams()

const prefixLen = 110

// world is everything the templates refer to: the node's chain and blocks /
// transactions a peer could announce on top of it.
type world struct {
	dir    string
	blocks []*reftx.Block // heights 1..prefixLen
	cb     [][32]byte     // coinbase txid per height
	tipH   [32]byte
	b106   *reftx.Block // block with three transactions
	txT    *reftx.Tx    // valid spend of a mature anyone-can-spend coinbase
	txW    *reftx.Tx    // same with a (superfluous) witness stack
	n1     *reftx.Block // height 111: coinbase + txT
	n2     *reftx.Block // height 112 on n1
	n1c    *reftx.Block // height 111 sibling: coinbase only
	n1d    *reftx.Block // height 111 sibling: coinbase + txT (for two prefilled)
	coins  []coin       // spendable outputs of every standard kind (outputs of fund)
	fund   *reftx.Tx    // confirmed in block 107
	n1w    *reftx.Block // height 111 sibling: coinbase + witness-flagged txW, with commitment
}

func o1(v uint64) reftx.Out { return reftx.Out{Value: v, Script: []byte{0x51}} }

func buildWorld(dir string, deliver bool) *world {
	w := &world{dir: dir}
	var e *minichain.Env
	if deliver {
		e = minichain.Open(dir, &minichain.Opts{Params: params})
	}
	prev := minichain.GenesisHash
	w.cb = make([][32]byte, prefixLen+1)
	for h := uint32(1); h <= prefixLen; h++ {
		s := minichain.Spec{Prev: prev, Height: h, CbValue: -1}
		if h == 106 {
			a := minichain.Spend([]refchain.Outpoint{{Tx: w.cb[1], Vout: 0}}, []reftx.Out{o1(20e8), o1(30e8)})
			b := minichain.Spend([]refchain.Outpoint{{Tx: w.cb[2], Vout: 0}}, []reftx.Out{o1(50e8)})
			s.Txs = []*reftx.Tx{a, b}
		}
		if h == 107 {
			w.coins = makeCoins()
			w.fund = fundingTx(w.cb[5], w.coins)
			s.Txs = []*reftx.Tx{w.fund}
			s.Fees = 50e8 - uint64(len(w.coins))*coinValue
		}
		b := minichain.Build(s)
		if deliver {
			if r := e.Deliver(b.Bytes()); r != "ok" {
				ev.HarnessError("prefix block %d: %s", h, r)
			}
		}
		if h == 106 {
			w.b106 = b
		}
		w.cb[h] = b.Txs[0].TxID()
		w.blocks = append(w.blocks, b)
		prev = b.Hash()
	}
	if deliver {
		e.Close()
	}
	w.tipH = prev
	w.txT = minichain.Spend([]refchain.Outpoint{{Tx: w.cb[3], Vout: 0}}, []reftx.Out{o1(50e8 - 1e6)})
	w.txW = minichain.Spend([]refchain.Outpoint{{Tx: w.cb[4], Vout: 0}}, []reftx.Out{o1(25e8), o1(25e8 - 1e6)})
	w.txW.In[0].Witness = [][]byte{{0x01}, {0xaa, 0xbb}}
	w.n1 = minichain.Build(minichain.Spec{Prev: w.tipH, Height: 111, Tag: 1, Txs: []*reftx.Tx{w.txT}, Fees: 1e6, CbValue: -1})
	w.n2 = minichain.Build(minichain.Spec{Prev: w.n1.Hash(), Height: 112, Tag: 1, CbValue: -1})
	w.n1c = minichain.Build(minichain.Spec{Prev: w.tipH, Height: 111, Tag: 2, CbValue: -1})
	w.n1d = minichain.Build(minichain.Spec{Prev: w.tipH, Height: 111, Tag: 3, Txs: []*reftx.Tx{w.txT}, Fees: 1e6, CbValue: -1})
	w.n1w = minichain.Build(minichain.Spec{Prev: w.tipH, Height: 111, Tag: 4, Txs: []*reftx.Tx{w.txW}, Fees: 1e6, CbValue: -1, Witness: true})
	return w
}

// ---------------------------------------------------------------------------
// SipHash-2-4 (BIP152 short ids), independent implementation

func rotl(x uint64, b uint) uint64 { return (x << b) | (x >> (64 - b)) }

func siphash24(k0, k1 uint64, m []byte) uint64 {
	v0 := k0 ^ 0x736f6d6570736575
	v1 := k1 ^ 0x646f72616e646f6d
	v2 := k0 ^ 0x6c7967656e657261
	v3 := k1 ^ 0x7465646279746573
	round := func() {
		v0 += v1
		v1 = rotl(v1, 13)
		v1 ^= v0
		v0 = rotl(v0, 32)
		v2 += v3
		v3 = rotl(v3, 16)
		v3 ^= v2
		v0 += v3
		v3 = rotl(v3, 21)
		v3 ^= v0
		v2 += v1
		v1 = rotl(v1, 17)
		v1 ^= v2
		v2 = rotl(v2, 32)
	}
	n := len(m)
	for len(m) >= 8 {
		x := binary.LittleEndian.Uint64(m)
		v3 ^= x
		round()
		round()
		v0 ^= x
		m = m[8:]
	}
	var last [8]byte
	copy(last[:], m)
	x := binary.LittleEndian.Uint64(last[:]) | uint64(n)<<56
	v3 ^= x
	round()
	round()
	v0 ^= x
	v2 ^= 0xff
	round()
	round()
	round()
	round()
	return v0 ^ v1 ^ v2 ^ v3
}

// ---------------------------------------------------------------------------
// templates

type field struct {
	off, width int
	rec        int // size of one counted record (for wrap-around values)
	name       string
}

type tmpl struct {
	name   string
	cmd    string
	pl     []byte
	fields []field
}

func cs(n uint64) []byte { return reftx.PutCS(nil, n) }

func le32(v uint32) []byte { return []byte{byte(v), byte(v >> 8), byte(v >> 16), byte(v >> 24)} }
func le64(v uint64) []byte {
	b := make([]byte, 8)
	binary.LittleEndian.PutUint64(b, v)
	return b
}

// txFields maps the CompactSize fields of a serialised transaction placed at base.
func txFields(t *reftx.Tx, wit bool, base int, pfx string) (b []byte, fs []field) {
	b, sp := t.Layout(wit, false)
	for _, s := range sp {
		rec := 1
		switch s.Kind {
		case "cs:nin":
			rec = 41
		case "cs:nout":
			rec = 9
		case "cs:nwit":
			rec = 1
		}
		if len(s.Kind) > 3 && s.Kind[:3] == "cs:" {
			fs = append(fs, field{off: base + s.Off, width: s.Len, rec: rec, name: pfx + s.Kind[3:]})
		}
	}
	return
}

const fixedNonce = "c18nonce"

func netaddr(services uint64, ip [4]byte, port uint16) []byte {
	b := le64(services)
	b = append(b, 0, 0, 0, 0, 0, 0, 0, 0, 0, 0, 0xff, 0xff)
	b = append(b, ip[:]...)
	return append(b, byte(port>>8), byte(port))
}

func versionPl(ua string, services uint64, tail bool) []byte {
	b := le32(70016)
	b = append(b, le64(services)...)
	b = append(b, le64(1700000000)...)
	b = append(b, netaddr(0x409, [4]byte{8, 8, 4, 4}, 8333)...)          // addr_recv: how the peer sees us
	b = append(b, netaddr(services, [4]byte{93, 184, 216, 34}, 8333)...) // addr_from
	b = append(b, 0x11, 0x22, 0x33, 0x44, 0x55, 0x66, 0x77, 0x88)
	b = append(b, cs(uint64(len(ua)))...)
	b = append(b, ua...)
	if tail {
		b = append(b, le32(110)...)
		b = append(b, 1)
	}
	return b
}

func (w *world) locator(cmdVer uint32, hashes [][32]byte, stop [32]byte) []byte {
	b := le32(cmdVer)
	b = append(b, cs(uint64(len(hashes)))...)
	for _, h := range hashes {
		b = append(b, h[:]...)
	}
	return append(b, stop[:]...)
}

func inv(entries ...[]byte) []byte {
	b := cs(uint64(len(entries)))
	for _, e := range entries {
		b = append(b, e...)
	}
	return b
}

func invEntry(typ uint32, h [32]byte) []byte { return append(le32(typ), h[:]...) }

// cmpct builds a BIP152 cmpctblock payload for blk with the listed transactions
// prefilled (indexes into blk.Txs) and the rest as version-2 short ids.
func cmpct(blk *reftx.Block, prefilled []int) (pl []byte, fs []field) {
	hdr := blk.Header.Bytes()
	pl = append(pl, hdr...)
	pl = append(pl, 0x01, 0x02, 0x03, 0x04, 0x05, 0x06, 0x07, 0x08)
	kk := sha256.Sum256(pl[:88])
	k0, k1 := binary.LittleEndian.Uint64(kk[0:8]), binary.LittleEndian.Uint64(kk[8:16])
	isPre := map[int]bool{}
	for _, i := range prefilled {
		isPre[i] = true
	}
	var sids [][]byte
	for i, t := range blk.Txs {
		if !isPre[i] {
			id := t.WTxID()
			s := le64(siphash24(k0, k1, id[:]))
			sids = append(sids, s[:6])
		}
	}
	fs = append(fs, field{off: len(pl), width: 1, rec: 6, name: "shortids"})
	pl = append(pl, cs(uint64(len(sids)))...)
	for _, s := range sids {
		pl = append(pl, s...)
	}
	fs = append(fs, field{off: len(pl), width: 1, rec: 60, name: "prefilled"})
	pl = append(pl, cs(uint64(len(prefilled)))...)
	exp := 0
	for n, i := range prefilled {
		fs = append(fs, field{off: len(pl), width: 1, rec: 1, name: fmt.Sprintf("pre%d.idx", n)})
		pl = append(pl, cs(uint64(i-exp))...)
		exp = i + 1
		tb, tf := txFields(blk.Txs[i], true, len(pl), fmt.Sprintf("pre%d.", n))
		pl = append(pl, tb...)
		fs = append(fs, tf...)
	}
	return
}

func (w *world) templates(xauthFriend, xauthOther []byte) []*tmpl {
	var ts []*tmpl
	add := func(name, cmd string, pl []byte, fs ...field) {
		ts = append(ts, &tmpl{name: name, cmd: cmd, pl: pl, fields: fs})
	}
	const svc = 0x409 // NETWORK | WITNESS | NETWORK_LIMITED
	add("version", "version", versionPl("/Satoshi:25.0.0/", svc, true), field{80, 1, 1, "ua"})
	add("version-ua2", "version", versionPl("ab", svc, true), field{80, 1, 1, "ua"})
	add("version-gocoin", "version", versionPl("/Gocoin:1.10.0/", svc, true), field{80, 1, 1, "ua"})
	add("version-min", "version", versionPl("", svc, false)[:80])
	add("verack", "verack", nil)

	addr := cs(2)
	addr = append(addr, le32(0x7fffffff)...) // far future (clamped / penalised)
	addr = append(addr, netaddr(0x409, [4]byte{1, 2, 3, 4}, 8333)...)
	addr = append(addr, le32(1600000000)...) // old
	addr = append(addr, netaddr(0x409, [4]byte{5, 6, 7, 8}, 8333)...)
	add("addr", "addr", addr, field{0, 1, 30, "count"})
	add("getaddr", "getaddr", nil)

	unk := [32]byte{0xde, 0xad, 0xbe, 0xef, 1, 2, 3, 4, 5, 6, 7, 8, 9}
	tT := w.txT.TxID()
	add("inv", "inv", inv(invEntry(1, tT), invEntry(2, unk), invEntry(2, w.tipH), invEntry(0x40000001, unk)), field{0, 1, 36, "count"})
	add("inv-1", "inv", inv(invEntry(2, w.n1.Hash())), field{0, 1, 36, "count"})
	add("notfound", "notfound", inv(invEntry(1, tT)), field{0, 1, 36, "count"})
	add("notfound-blk", "notfound", inv(invEntry(0x40000002, w.n1.Hash()), invEntry(0x40000002, w.n2.Hash())), field{0, 1, 36, "count"})
	h106 := w.b106.Hash()
	add("getdata", "getdata", inv(invEntry(0x40000002, w.tipH), invEntry(0x40000001, unk), invEntry(4, h106), invEntry(2, w.tipH), invEntry(0x40000002, unk)),
		field{0, 1, 36, "count"})
	h100 := w.blocks[99].Hash()
	add("getblocks", "getblocks", w.locator(70016, [][32]byte{h100, minichain.GenesisHash}, [32]byte{}), field{4, 1, 32, "count"})
	add("getheaders", "getheaders", w.locator(70016, [][32]byte{h100, minichain.GenesisHash}, [32]byte{}), field{4, 1, 32, "count"})
	add("getheaders-stop", "getheaders", w.locator(70016, nil, h100), field{4, 1, 32, "count"})

	hd := cs(2)
	hd = append(hd, w.n1.Header.Bytes()...)
	hd = append(hd, 0)
	hd = append(hd, w.n2.Header.Bytes()...)
	hd = append(hd, 0)
	add("headers", "headers", hd, field{0, 1, 81, "count"}, field{81, 1, 1, "txcnt0"}, field{162, 1, 1, "txcnt1"})
	add("headers-0", "headers", cs(0), field{0, 1, 81, "count"})

	tb, tf := txFields(w.txT, true, 0, "")
	add("tx", "tx", tb, tf...)
	tb, tf = txFields(w.txW, true, 0, "")
	add("tx-wit", "tx", tb, tf...)

	blk := func(name string, b *reftx.Block) {
		pl := b.Header.Bytes()
		fs := []field{{80, 1, 60, "txcount"}}
		pl = append(pl, cs(uint64(len(b.Txs)))...)
		for i, t := range b.Txs {
			tb, tf := txFields(t, true, len(pl), fmt.Sprintf("tx%d.", i))
			pl = append(pl, tb...)
			fs = append(fs, tf...)
		}
		add(name, "block", pl, fs...)
	}
	blk("block", w.n1)
	blk("block-known", w.blocks[prefixLen-1]) // the node's own tip sent again

	pl, fs := cmpct(w.n1c, []int{0})
	add("cmpctblock-full", "cmpctblock", pl, fs...)
	pl, fs = cmpct(w.n1, []int{0})
	add("cmpctblock-missing", "cmpctblock", pl, fs...)
	pl, fs = cmpct(w.n1d, []int{0, 1})
	add("cmpctblock-2pre", "cmpctblock", pl, fs...)

	pl, fs = cmpct(w.n1w, []int{0, 1})
	add("cmpctblock-wit", "cmpctblock", pl, fs...)

	gbt := append([]byte{}, h106[:]...)
	gbt = append(gbt, 3, 0, 0, 0)
	add("getblocktxn", "getblocktxn", gbt, field{32, 1, 1, "count"}, field{33, 1, 1, "idx0"}, field{34, 1, 1, "idx1"}, field{35, 1, 1, "idx2"})

	n1h := w.n1.Hash()
	btx := append([]byte{}, n1h[:]...)
	btx = append(btx, 1)
	tb, tf = txFields(w.txT, true, len(btx), "tx0.")
	btx = append(btx, tb...)
	add("blocktxn", "blocktxn", btx, append([]field{{32, 1, 60, "count"}}, tf...)...)

	btw := append([]byte{}, n1h[:]...)
	btw = append(btw, 1)
	tb, tf = txFields(w.txW, true, len(btw), "tx0.")
	btw = append(btw, tb...)
	add("blocktxn-wit", "blocktxn", btw, append([]field{{32, 1, 60, "count"}}, tf...)...)

	add("ping", "ping", []byte{1, 2, 3, 4, 5, 6, 7, 8})
	add("pong", "pong", []byte{1, 2, 3, 4, 5, 6, 7, 8})
	add("feefilter", "feefilter", le64(1000))
	add("sendcmpct", "sendcmpct", append([]byte{1}, le64(2)...))
	add("sendcmpct-v1", "sendcmpct", append([]byte{0}, le64(1)...))
	add("sendheaders", "sendheaders", nil)
	mp := cs(2)
	mp = append(mp, tT[:8]...)
	mp = append(mp, unk[:8]...)
	add("getmp", "getmp", mp, field{0, 1, 8, "count"})
	add("getmpdone", "getmpdone", []byte{0})
	add("xauth", "xauth", xauthOther)
	add("xauth-friend", "xauth", xauthFriend)
	add("auth", "auth", xauthOther)
	add("authack", "authack", []byte{1})
	add("mempool", "mempool", nil)
	add("filterload", "filterload", []byte{1, 0xff, 1, 0, 0, 0, 0, 0, 0, 0, 0})
	add("filterclear", "filterclear", nil)
	add("merkleblock", "merkleblock", w.n1.Header.Bytes())
	add("unknown", "foo", []byte{1, 2, 3, 4, 5, 6, 7, 8, 9, 10})
	add("reject", "reject", []byte{2, 't', 'x', 0x10, 3, 'b', 'a', 'd'})
	return ts
}

// ---------------------------------------------------------------------------
// count-field values

type cval struct {
	name string
	enc  []byte
}

func csForm(n uint64, width int) []byte {
	b, ok := reftx.PutCSForm(n, width)
	if !ok {
		panic("csForm")
	}
	return b
}

// countValues: the replacement set for a CompactSize field counting records of rec bytes.
func countValues(rec int, wide bool) []cval {
	var vs []cval
	add := func(name string, enc []byte) { vs = append(vs, cval{name, enc}) }
	add("0", csForm(0, 1))
	add("1", csForm(1, 1))
	add("2", csForm(2, 1))
	add("fc", csForm(0xfc, 1))
	add("fd:0", csForm(0, 3))
	add("fd:1", csForm(1, 3))
	add("fd:fc", csForm(0xfc, 3))
	add("fd:fd", csForm(0xfd, 3))
	add("fd:ffff", csForm(0xffff, 3))
	add("fe:0", csForm(0, 5))
	add("fe:1", csForm(1, 5))
	add("fe:2^16", csForm(1<<16, 5))
	add("fe:2^31", csForm(1<<31, 5))
	add("fe:2^32-1", csForm(0xffffffff, 5))
	add("ff:0", csForm(0, 9))
	add("ff:1", csForm(1, 9))
	add("ff:2^32", csForm(1<<32, 9))
	add("ff:2^62+1", csForm(1<<62+1, 9))
	// the largest positive int64 and its neighbours: "offset + length" sums wrap negative
	add("ff:2^63-1", csForm(1<<63-1, 9))
	add("ff:2^63-64", csForm(1<<63-64, 9))
	add("ff:2^63-128", csForm(1<<63-128, 9))
	add("ff:2^63", csForm(1<<63, 9))
	add("ff:2^63+1", csForm(1<<63+1, 9))
	add("ff:2^64-1", csForm(^uint64(0), 9))
	add("fd-trunc", []byte{0xfd})
	add("fe-trunc", []byte{0xfe, 0x01})
	add("ff-trunc", []byte{0xff, 0x01, 0x00, 0x00})
	recs := map[int]bool{30: true, 32: true, 36: true, 81: true, 8: true, 6: true}
	if rec > 1 {
		recs[rec] = true
	}
	var rl []int
	for r := range recs {
		rl = append(rl, r)
	}
	sort.Ints(rl)
	two64 := new(big.Int).Lsh(big.NewInt(1), 64)
	two63 := new(big.Int).Lsh(big.NewInt(1), 63)
	for _, r := range rl {
		for _, base := range []*big.Int{two64, two63} {
			q := new(big.Int).Add(base, big.NewInt(int64(r-1)))
			q.Div(q, big.NewInt(int64(r))) // ceil(base / r)
			for d := int64(-1); d <= 1; d++ {
				v := new(big.Int).Add(q, big.NewInt(d))
				if v.IsUint64() {
					nm := "2^64"
					if base == two63 {
						nm = "2^63"
					}
					add(fmt.Sprintf("ff:ceil(%s/%d)%+d", nm, r, d), csForm(v.Uint64(), 9))
				}
			}
		}
	}
	kmax := 16
	if wide {
		kmax = 96
	}
	for k := 2; k <= kmax; k++ {
		add(fmt.Sprintf("ff:2^64-%d", k), csForm(^uint64(0)-uint64(k)+1, 9))
	}
	return vs
}

var subst8 = []byte{0x00, 0x01, 0x02, 0x7f, 0x80, 0xfd, 0xfe, 0xff}

// thorough tier: 16 values
var subst16 = []byte{0x00, 0x01, 0x02, 0x03, 0x10, 0x20, 0x40, 0x4c, 0x55, 0x7f, 0x80, 0xaa, 0xfc, 0xfd, 0xfe, 0xff}

// ---------------------------------------------------------------------------
// contexts

type ctxt struct {
	name   string
	ibd    bool
	friend bool
	prefix []Event
}

func msg(t *tmpl) Event { return Event{T: "msg", Cmd: t.cmd, Pl: hex.EncodeToString(t.pl)} }

type caseGen struct {
	subst []byte
	w     *world
	ts    []*tmpl
	byN   map[string]*tmpl
	ctx   map[string]*ctxt
	cases []*Case
}

func (g *caseGen) t(name string) *tmpl {
	t := g.byN[name]
	if t == nil {
		panic("no template " + name)
	}
	return t
}

func (g *caseGen) contexts() {
	g.ctx = map[string]*ctxt{}
	ver, verack := msg(g.t("version")), msg(g.t("verack"))
	add := func(c *ctxt) { g.ctx[c.name] = c }
	add(&ctxt{name: "pre"})
	add(&ctxt{name: "post", prefix: []Event{ver, verack}})
	add(&ctxt{name: "ibd", ibd: true, prefix: []Event{ver, verack}})
	ready := []Event{ver, verack, msg(g.t("sendheaders")), msg(g.t("sendcmpct")), msg(g.t("headers-0")), {T: "tick"}}
	add(&ctxt{name: "ready", prefix: ready})
	add(&ctxt{name: "cmpct", prefix: append(append([]Event{}, ready...), msg(g.t("cmpctblock-missing")))})
	// "dl": a FULL block download from this peer is in flight. Produced through the
	// real code path: the peer announces two new headers (n1, n2), then an empty
	// headers message (AllHeadersReceived), and the connection's Tick calls
	// GetBlockData, which sends getdata and enters both hashes into
	// c.GetBlockInProgress without a compact-block collector (col == nil).
	add(&ctxt{name: "dl", prefix: []Event{ver, verack, msg(g.t("sendheaders")), msg(g.t("sendcmpct")), msg(g.t("headers")), msg(g.t("headers-0")), {T: "tick"}}})
	// node-initiated requests in flight: "pinged" = relay-ready connection on which the
	// node has sent its ping (TryPing through a tick 16 s later); "gh" = the node's first
	// getheaders is out (first tick after the handshake), no ping yet
	add(&ctxt{name: "pinged", prefix: append(append([]Event{}, ready...), Event{T: "tick", Cmd: "+16s"})})
	add(&ctxt{name: "gh", prefix: []Event{ver, verack, msg(g.t("sendheaders")), msg(g.t("sendcmpct")), {T: "tick"}}})
	add(&ctxt{name: "xa", prefix: []Event{ver, verack, msg(g.t("xauth"))}})
	add(&ctxt{name: "friend", friend: true, prefix: []Event{msg(g.t("version-gocoin")), verack, msg(g.t("xauth-friend"))}})
}

func (g *caseGen) add(family, tname string, cx *ctxt, evs ...Event) {
	c := &Case{ID: len(g.cases), Kind: "net", Family: family, Tmpl: tname, Ctx: cx.name, IBD: cx.ibd, Friend: cx.friend}
	c.Events = append(append([]Event{}, cx.prefix...), evs...)
	c.Target = len(cx.prefix)
	g.cases = append(g.cases, c)
}

func mev(cmd string, pl []byte) Event { return Event{T: "msg", Cmd: cmd, Pl: hex.EncodeToString(pl)} }

func replaceField(pl []byte, f field, enc []byte) []byte {
	out := append([]byte{}, pl[:f.off]...)
	out = append(out, enc...)
	return append(out, pl[f.off+f.width:]...)
}

// families enumerates, for one template in one context, every member of the four
// single-message families.
func (g *caseGen) families(t *tmpl, cx *ctxt, which string, wide bool) {
	has := func(f byte) bool {
		for i := 0; i < len(which); i++ {
			if which[i] == f {
				return true
			}
		}
		return false
	}
	if has('v') {
		g.add("valid", t.name, cx, msg(t))
	}
	if has('t') {
		for k := 0; k < len(t.pl); k++ {
			g.add(fmt.Sprintf("trunc/%d", k), t.name, cx, mev(t.cmd, t.pl[:k]))
		}
	}
	if has('l') {
		for _, fill := range []byte{0x00, 0x01, 0xff} {
			for l := 0; l <= 24; l++ {
				b := make([]byte, l)
				for i := range b {
					b[i] = fill
				}
				g.add(fmt.Sprintf("len/%d/fill=%02x", l, fill), t.name, cx, mev(t.cmd, b))
			}
		}
	}
	if has('c') {
		for _, f := range t.fields {
			for _, v := range countValues(f.rec, wide) {
				g.add(fmt.Sprintf("count/%s=%s", f.name, v.name), t.name, cx, mev(t.cmd, replaceField(t.pl, f, v.enc)))
			}
		}
	}
	if has('p') {
		countChild(t.pl, t.fields, func(name string, b []byte) {
			g.add("count-child/"+name, t.name, cx, mev(t.cmd, b))
		})
	}
	if has('s') {
		for i := range t.pl {
			for _, v := range g.subst {
				if t.pl[i] == v {
					continue
				}
				b := append([]byte{}, t.pl...)
				b[i] = v
				g.add(fmt.Sprintf("subst/%d=%02x", i, v), t.name, cx, mev(t.cmd, b))
			}
		}
	}
}

// parentChild lists (count field, length field of its first element) pairs: input
// count -> first scriptSig length, output count -> first pkScript length, witness
// item count -> first item length.
func parentChild(fs []field) (out [][2]int) {
	suffix := func(n, s string) bool { return len(n) >= len(s) && n[len(n)-len(s):] == s }
	for i := 0; i+1 < len(fs); i++ {
		p, c := fs[i].name, fs[i+1].name
		if suffix(p, "nin") && suffix(c, "scriptsig") || suffix(p, "nout") && suffix(c, "pkscript") || suffix(p, "nwit") && suffix(c, "witem") {
			out = append(out, [2]int{i, i + 1})
		}
	}
	return
}

// A huge element count together with an element length of 2^64-k ("minus k": the read
// position moves back by the size of what was just read, or not at all). Counts
// near 2^32 are left out on purpose: a loop of that many cheap iterations lasts about
// as long as the watchdog and the verdict would depend on the machine; 2^62+1 or
// 2^63-1 iterations never finish anywhere.
var hugeCounts = []cval{{"ff:2^62+1", csForm(1<<62+1, 9)}, {"ff:2^63-1", csForm(1<<63-1, 9)}}

func minusLens() (out []cval) {
	for k := 1; k <= 10; k++ {
		out = append(out, cval{fmt.Sprintf("ff:2^64-%d", k), csForm(^uint64(0)-uint64(k)+1, 9)})
	}
	return
}

func countChild(pl []byte, fs []field, f func(name string, b []byte)) {
	for _, pc := range parentChild(fs) {
		for _, a := range hugeCounts {
			for _, b := range minusLens() {
				p := replaceField(pl, fs[pc[1]], b.enc) // later field first: offsets stay valid
				p = replaceField(p, fs[pc[0]], a.enc)
				f(fmt.Sprintf("%s=%s,%s=%s", fs[pc[0]].name, a.name, fs[pc[1]].name, b.name), p)
			}
		}
	}
}

func rawFrame(magic []byte, cmd string, length uint32, cksum []byte, pl []byte) Event {
	b := make([]byte, 24)
	copy(b[0:4], magic)
	copy(b[4:16], cmd)
	binary.LittleEndian.PutUint32(b[16:20], length)
	copy(b[20:24], cksum)
	return Event{T: "raw", Pl: hex.EncodeToString(append(b, pl...))}
}

var maxSizes = map[string]uint32{"inv": 9 + 50000*36, "tx": 500e3, "addr": 9 + 1000*30, "block": 4e6, "getblocks": 4 + 9 + 101*32 + 32,
	"getdata": 9 + 50000*36, "headers": 9 + 2000*89, "getheaders": 4 + 9 + 101*32 + 32, "cmpctblock": 1e6, "getblocktxn": 1e6,
	"blocktxn": 4e6, "notfound": 9 + 50000*36, "getmp": 9 + 8*1e6, "version": 1024, "ping": 1024, "foo": 1024}

func (g *caseGen) framing(cx *ctxt) {
	magic := []byte{0xfa, 0xbf, 0xb5, 0xda}
	ck := func(pl []byte) []byte { h := reftx.DSha(pl); return h[:4] }
	ping := []byte{1, 2, 3, 4, 5, 6, 7, 8}
	g.add("frame/bad-magic", "ping", cx, rawFrame([]byte{0xf9, 0xbe, 0xb4, 0xd9}, "ping", 8, ck(ping), ping))
	g.add("frame/bad-checksum", "ping", cx, rawFrame(magic, "ping", 8, []byte{0, 0, 0, 0}, ping))
	g.add("frame/cmd-no-nul", "ping", cx, rawFrame(magic, "pingpingping", 8, ck(ping), ping))
	g.add("frame/cmd-empty", "ping", cx, rawFrame(magic, "", 8, ck(ping), ping))
	g.add("frame/cmd-binary", "ping", cx, rawFrame(magic, "\xff\x00\xfe\x01version", 8, ck(ping), ping))
	var cmds []string
	for c := range maxSizes {
		cmds = append(cmds, c)
	}
	sort.Strings(cmds)
	for _, c := range cmds {
		g.add("frame/len=max+1", c, cx, rawFrame(magic, c, maxSizes[c]+1, []byte{0, 0, 0, 0}, nil))
		g.add("frame/len=2^31-1", c, cx, rawFrame(magic, c, 0x7fffffff, []byte{0, 0, 0, 0}, nil))
	}
	// "encrypted" flag (bit 31 of the length field)
	for _, l := range []int{0, 1, 8, 11, 12, 13, 27, 28, 29, 40} {
		pl := make([]byte, l)
		for i := range pl {
			pl[i] = byte(i + 1)
		}
		for _, c := range []string{"ping", "version", "block", "authack", "tx"} {
			g.add(fmt.Sprintf("frame/encrypted-bit/len=%d", l), c, cx, rawFrame(magic, c, uint32(l)|0x80000000, ck(pl), pl))
		}
	}
	g.add("frame/encrypted-bit/len=max", "ping", cx, rawFrame(magic, "ping", 0xffffffff, []byte{0, 0, 0, 0}, nil))
}

// seqFamily: every sequence of the given depths over the request/response alphabet
// around a ping and a getheaders in flight.
func (g *caseGen) seqFamily(cx *ctxt, maxDepth int) {
	unk := [32]byte{0xab, 0xcd, 0xef, 9, 8, 7, 6, 5, 4, 3, 2, 1}
	type sym struct {
		name string
		ev   Event
	}
	al := []sym{
		{"tick", Event{T: "tick", Cmd: "+16s"}},
		{"inv-unknown-block", mev("inv", inv(invEntry(2, unk)))},
		{"headers-0", msg(g.t("headers-0"))},
		{"headers-2", msg(g.t("headers"))},
		{"pong-match", Event{T: "pong", Cmd: "match"}},
		{"pong-stale", Event{T: "pong", Cmd: "stale"}},
		{"pong-short", Event{T: "pong", Cmd: "short"}},
		{"getheaders", msg(g.t("getheaders"))},
	}
	var rec func(names []string, evs []Event)
	rec = func(names []string, evs []Event) {
		if len(evs) > 0 {
			nm := names[0]
			for _, n := range names[1:] {
				nm += "," + n
			}
			g.add("seq/"+nm, "req-resp", cx, evs...)
		}
		if len(evs) == maxDepth {
			return
		}
		for _, a := range al {
			rec(append(append([]string{}, names...), a.name), append(append([]Event{}, evs...), a.ev))
		}
	}
	rec(nil, nil)
}
