package main

import (
	"go/ast"
	"go/parser"
)

func parseExpr(s string) (ast.Expr, error) { return parser.ParseExpr(s) }
