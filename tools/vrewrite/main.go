// vrewrite: typed AST rewrite of gocoin packages for the controlled scheduler.
//
//	vrewrite -repo /repo -out <builddir> -overlay <overlay.json> lib/chain lib/utxo …
//
// For every non-test .go file of the listed package directories it
//   - redirects the imports sync -> vshim/vsync (as "sync"), sync/atomic -> vshim/vatomic (as "atomic");
//   - turns `go f(a,b)` into `{ h := vsched.Spawn(); go vsched.G2(h, f, a, b) }`;
//   - turns channel sends / receives / len / cap / close into vsched helpers;
//   - turns `select` into a switch over vsched.Select (arm choice owned by the explorer);
//   - turns `range` over a map into iteration over vsched.MapKeys (order owned by the explorer).
//
// Rewritten files are written to <builddir>/vrw/… and merged into the overlay's
// "Replace" map together with the virtual shim packages. Any construct it cannot
// handle is a hard error (the check then exits 2).
package main

import (
	"bytes"
	"encoding/json"
	"flag"
	"fmt"
	"go/ast"
	"go/format"
	"go/token"
	"go/types"
	"os"
	"path/filepath"
	"strconv"
	"strings"

	"golang.org/x/tools/go/ast/astutil"
	"golang.org/x/tools/go/packages"
)

const shimBase = "github.com/piotrnar/gocoin/lib/others/vshim/"

type counts struct{ Go, Send, Recv, Len, Close, Select, MapRange, Files int }

var cnt counts

func die(f string, a ...interface{}) {
	fmt.Fprintf(os.Stderr, "vrewrite: "+f+"\n", a...)
	os.Exit(1)
}

func main() {
	repo := flag.String("repo", "/repo", "")
	out := flag.String("out", "", "")
	ovf := flag.String("overlay", "", "")
	shims := flag.String("shims", "/verif/vshim", "")
	skipFiles := flag.String("skip", "", "comma separated base names to leave untouched")
	vosPath := flag.String("vos", "", "if set: also redirect the os import to the effect-recording shim at this path")
	flag.Parse()
	skip := map[string]bool{}
	for _, f := range strings.Split(*skipFiles, ",") {
		skip[f] = true
	}
	var pats []string
	for _, d := range flag.Args() {
		pats = append(pats, "./"+d)
	}
	cfg := &packages.Config{Mode: packages.NeedName | packages.NeedFiles | packages.NeedSyntax | packages.NeedTypes | packages.NeedTypesInfo | packages.NeedImports | packages.NeedDeps | packages.NeedCompiledGoFiles,
		Dir: *repo, Env: append(os.Environ(), "GOFLAGS=-mod=mod", "GOPROXY=off", "GOSUMDB=off")}
	ov := map[string]map[string]string{}
	if b, err := os.ReadFile(*ovf); err == nil {
		json.Unmarshal(b, &ov)
	}
	if ov["Replace"] == nil {
		ov["Replace"] = map[string]string{}
	}
	// files already replaced by an earlier overlay entry are read in their replaced form,
	// so the rewrite composes with it instead of discarding it
	cfg.Overlay = map[string][]byte{}
	for path, repl := range ov["Replace"] {
		if repl == "" || !strings.HasSuffix(path, ".go") {
			continue
		}
		if b, err := os.ReadFile(repl); err == nil {
			cfg.Overlay[path] = b
		}
	}
	pkgs, err := packages.Load(cfg, pats...)
	if err != nil {
		die("load: %v", err)
	}
	for _, p := range pkgs {
		if len(p.Errors) > 0 {
			die("package %s: %v", p.PkgPath, p.Errors[0])
		}
		for i, f := range p.Syntax {
			path := p.CompiledGoFiles[i]
			if strings.HasSuffix(path, "_test.go") || skip[filepath.Base(path)] {
				continue
			}
			changed := rewriteFile(p, f, *vosPath != "")
			if !changed {
				continue
			}
			var buf bytes.Buffer
			if err := format.Node(&buf, p.Fset, f); err != nil {
				die("print %s: %v", path, err)
			}
			rel, _ := filepath.Rel(*repo, path)
			dst := filepath.Join(*out, "vrw", rel)
			os.MkdirAll(filepath.Dir(dst), 0o755)
			if err := os.WriteFile(dst, buf.Bytes(), 0o644); err != nil {
				die("%v", err)
			}
			ov["Replace"][path] = dst
			cnt.Files++
		}
	}
	for _, s := range []string{"vsched", "vsync", "vatomic"} {
		ov["Replace"][filepath.Join(*repo, "lib/others/vshim", s, s+".go")] = filepath.Join(*shims, s, s+".go")
	}
	if *vosPath != "" {
		ov["Replace"][filepath.Join(*repo, "lib/others/vshim/vos/vos.go")] = *vosPath
	}
	b, _ := json.MarshalIndent(ov, "", " ")
	if err := os.WriteFile(*ovf, b, 0o644); err != nil {
		die("%v", err)
	}
	cb, _ := json.Marshal(cnt)
	os.WriteFile(filepath.Join(*out, "vrewrite-counts.json"), cb, 0o644)
	fmt.Fprintf(os.Stderr, "vrewrite: %s\n", cb)
}

type rw struct {
	commHeads map[ast.Stmt]bool
	p         *packages.Package
	f         *ast.File
	needSch   bool
	tmp       int
	timeName  string
}

func (r *rw) fresh(prefix string) string {
	r.tmp++
	return fmt.Sprintf("_vs%s%d", prefix, r.tmp)
}

func sel(x, s string) *ast.SelectorExpr {
	return &ast.SelectorExpr{X: ast.NewIdent(x), Sel: ast.NewIdent(s)}
}

func (r *rw) sch(name string) ast.Expr { r.needSch = true; return sel("vsched", name) }

func (r *rw) typeExpr(t types.Type) ast.Expr {
	s := types.TypeString(t, func(p *types.Package) string {
		if p == r.p.Types {
			return ""
		}
		// name under which the file imports the package
		for _, im := range r.f.Imports {
			ip, _ := strconv.Unquote(im.Path.Value)
			if ip == p.Path() {
				if im.Name != nil {
					return im.Name.Name
				}
				return p.Name()
			}
		}
		die("type %s needs package %s which the file does not import", t, p.Path())
		return ""
	})
	e, err := parseExpr(s)
	if err != nil {
		die("cannot parse type %q: %v", s, err)
	}
	return e
}

func (r *rw) chanElem(e ast.Expr) (types.Type, bool) {
	t := r.p.TypesInfo.TypeOf(e)
	if t == nil {
		return nil, false
	}
	c, ok := t.Underlying().(*types.Chan)
	if !ok {
		return nil, false
	}
	return c.Elem(), true
}

func (r *rw) isMap(e ast.Expr) bool {
	t := r.p.TypesInfo.TypeOf(e)
	if t == nil {
		return false
	}
	_, ok := t.Underlying().(*types.Map)
	return ok
}

func (r *rw) inst(fn string, elem types.Type) ast.Expr {
	return &ast.IndexExpr{X: r.sch(fn), Index: r.typeExpr(elem)}
}

func rewriteFile(p *packages.Package, f *ast.File, vos bool) bool {
	r := &rw{p: p, f: f, commHeads: map[ast.Stmt]bool{}}
	changed := false
	ast.Inspect(f, func(n ast.Node) bool {
		if cc, ok := n.(*ast.CommClause); ok && cc.Comm != nil {
			r.commHeads[cc.Comm] = true
		}
		return true
	})
	// imports
	for _, im := range f.Imports {
		ip, _ := strconv.Unquote(im.Path.Value)
		switch ip {
		case "sync":
			im.Path.Value = strconv.Quote(shimBase + "vsync")
			if im.Name == nil {
				im.Name = ast.NewIdent("sync")
			}
			changed = true
		case "sync/atomic":
			im.Path.Value = strconv.Quote(shimBase + "vatomic")
			if im.Name == nil {
				im.Name = ast.NewIdent("atomic")
			}
			changed = true
		case "os":
			if vos {
				im.Path.Value = strconv.Quote(shimBase + "vos")
				if im.Name == nil {
					im.Name = ast.NewIdent("os")
				}
				changed = true
			}
		case "time":
			r.timeName = "time"
			if im.Name != nil {
				r.timeName = im.Name.Name
			}
		}
	}
	astutil.Apply(f, nil, func(c *astutil.Cursor) bool {
		switch n := c.Node().(type) {
		case *ast.GoStmt:
			c.Replace(r.goStmt(n))
			changed = true
		case *ast.SendStmt:
			if _, inSelect := c.Parent().(*ast.CommClause); inSelect {
				return true
			}
			el, _ := r.chanElem(n.Chan)
			c.Replace(&ast.ExprStmt{X: &ast.CallExpr{Fun: r.inst("Send", el), Args: []ast.Expr{n.Chan, n.Value}}})
			cnt.Send++
			changed = true
		case *ast.UnaryExpr:
			if n.Op != token.ARROW {
				return true
			}
			if r.inCommClauseHead(c) {
				return true
			}
			el, ok := r.chanElem(n.X)
			if !ok {
				die("receive from non-channel at %s", p.Fset.Position(n.Pos()))
			}
			fn := "Recv"
			if as, ok := c.Parent().(*ast.AssignStmt); ok && len(as.Lhs) == 2 && len(as.Rhs) == 1 {
				fn = "Recv2"
			}
			if vs, ok := c.Parent().(*ast.ValueSpec); ok && len(vs.Names) == 2 && len(vs.Values) == 1 {
				fn = "Recv2"
			}
			c.Replace(&ast.CallExpr{Fun: r.inst(fn, el), Args: []ast.Expr{n.X}})
			cnt.Recv++
			changed = true
		case *ast.CallExpr:
			id, ok := n.Fun.(*ast.Ident)
			if !ok || len(n.Args) != 1 {
				return true
			}
			if obj := p.TypesInfo.Uses[id]; obj == nil || obj.Parent() != types.Universe {
				return true
			}
			el, isChan := r.chanElem(n.Args[0])
			if !isChan {
				return true
			}
			switch id.Name {
			case "len":
				c.Replace(&ast.CallExpr{Fun: r.inst("Len", el), Args: n.Args})
				cnt.Len++
				changed = true
			case "close":
				c.Replace(&ast.CallExpr{Fun: r.inst("Close", el), Args: n.Args})
				cnt.Close++
				changed = true
			}
		case *ast.SelectStmt:
			c.Replace(r.selectStmt(n))
			cnt.Select++
			changed = true
		case *ast.RangeStmt:
			if r.isMap(n.X) {
				c.Replace(r.mapRange(n))
				cnt.MapRange++
				changed = true
			} else if _, isChan := r.chanElem(n.X); isChan {
				die("range over channel at %s is not supported", p.Fset.Position(n.Pos()))
			}
		}
		return true
	})
	if r.needSch {
		astutil.AddImport(p.Fset, f, shimBase+"vsched")
	}
	return changed
}

// inCommClauseHead: the receive expression is the communication of a select arm
// (handled by selectStmt), not an ordinary receive.
func (r *rw) inCommClauseHead(c *astutil.Cursor) bool {
	if st, ok := c.Parent().(ast.Stmt); ok {
		return r.commHeads[st]
	}
	return false
}

func (r *rw) goStmt(n *ast.GoStmt) ast.Stmt {
	cnt.Go++
	call := n.Call
	if call.Ellipsis.IsValid() {
		die("go statement with variadic call at %s", r.p.Fset.Position(n.Pos()))
	}
	if len(call.Args) > 4 {
		die("go statement with %d arguments at %s", len(call.Args), r.p.Fset.Position(n.Pos()))
	}
	h := r.fresh("h")
	args := append([]ast.Expr{ast.NewIdent(h), call.Fun}, call.Args...)
	return &ast.BlockStmt{List: []ast.Stmt{
		&ast.AssignStmt{Lhs: []ast.Expr{ast.NewIdent(h)}, Tok: token.DEFINE, Rhs: []ast.Expr{&ast.CallExpr{Fun: r.sch("Spawn")}}},
		&ast.GoStmt{Call: &ast.CallExpr{Fun: r.sch(fmt.Sprint("G", len(call.Args))), Args: args}},
	}}
}

func (r *rw) isTimeAfter(e ast.Expr) bool {
	call, ok := e.(*ast.CallExpr)
	if !ok {
		return false
	}
	s, ok := call.Fun.(*ast.SelectorExpr)
	if !ok {
		return false
	}
	x, ok := s.X.(*ast.Ident)
	return ok && x.Name == r.timeName && r.timeName != "" && (s.Sel.Name == "After" || s.Sel.Name == "Tick")
}

func (r *rw) selectStmt(n *ast.SelectStmt) ast.Stmt {
	var pre []ast.Stmt
	var cases []ast.Expr
	var clauses []ast.Stmt
	res := r.fresh("sel")
	for i, cs := range n.Body.List {
		cc := cs.(*ast.CommClause)
		var head []ast.Stmt
		switch comm := cc.Comm.(type) {
		case nil:
			cases = append(cases, &ast.CallExpr{Fun: r.sch("DefaultCase")})
		case *ast.SendStmt:
			chv := r.fresh("c")
			pre = append(pre, &ast.AssignStmt{Lhs: []ast.Expr{ast.NewIdent(chv)}, Tok: token.DEFINE, Rhs: []ast.Expr{comm.Chan}})
			valv := r.fresh("v")
			pre = append(pre, &ast.AssignStmt{Lhs: []ast.Expr{ast.NewIdent(valv)}, Tok: token.DEFINE, Rhs: []ast.Expr{comm.Value}})
			cases = append(cases, &ast.CallExpr{Fun: r.sch("SendCase"), Args: []ast.Expr{ast.NewIdent(chv), ast.NewIdent(valv)}})
		default:
			var rx *ast.UnaryExpr
			var lhs []ast.Expr
			tok := token.ASSIGN
			switch s := comm.(type) {
			case *ast.ExprStmt:
				rx, _ = s.X.(*ast.UnaryExpr)
			case *ast.AssignStmt:
				rx, _ = s.Rhs[0].(*ast.UnaryExpr)
				lhs, tok = s.Lhs, s.Tok
			}
			if rx == nil || rx.Op != token.ARROW {
				die("unsupported select arm at %s", r.p.Fset.Position(cc.Pos()))
			}
			el, ok := r.chanElem(rx.X)
			if !ok {
				die("select arm on non-channel at %s", r.p.Fset.Position(cc.Pos()))
			}
			chv := r.fresh("c")
			pre = append(pre, &ast.AssignStmt{Lhs: []ast.Expr{ast.NewIdent(chv)}, Tok: token.DEFINE, Rhs: []ast.Expr{rx.X}})
			fn := "RecvCase"
			if r.isTimeAfter(rx.X) {
				fn = "TimerCase"
			}
			cases = append(cases, &ast.CallExpr{Fun: r.sch(fn), Args: []ast.Expr{ast.NewIdent(chv)}})
			if len(lhs) >= 1 {
				rhs := []ast.Expr{&ast.CallExpr{Fun: r.inst("Val", el), Args: []ast.Expr{ast.NewIdent(res)}}}
				if len(lhs) == 2 {
					rhs = append(rhs, &ast.SelectorExpr{X: ast.NewIdent(res), Sel: ast.NewIdent("Ok")})
				}
				head = append(head, &ast.AssignStmt{Lhs: lhs, Tok: tok, Rhs: rhs})
			}
		}
		clauses = append(clauses, &ast.CaseClause{List: []ast.Expr{&ast.BasicLit{Kind: token.INT, Value: strconv.Itoa(i)}}, Body: append(head, cc.Body...)})
	}
	// a select is a terminating statement when all its arms are; give the switch a
	// (never taken) default so that the same holds for it
	clauses = append(clauses, &ast.CaseClause{Body: []ast.Stmt{&ast.ExprStmt{X: &ast.CallExpr{Fun: ast.NewIdent("panic"), Args: []ast.Expr{&ast.BasicLit{Kind: token.STRING, Value: `"vsched: select index out of range"`}}}}}})
	pre = append(pre, &ast.AssignStmt{Lhs: []ast.Expr{ast.NewIdent(res)}, Tok: token.DEFINE, Rhs: []ast.Expr{&ast.CallExpr{Fun: r.sch("Select"), Args: cases}}})
	pre = append(pre, &ast.SwitchStmt{Tag: &ast.SelectorExpr{X: ast.NewIdent(res), Sel: ast.NewIdent("Idx")}, Body: &ast.BlockStmt{List: clauses}})
	return &ast.BlockStmt{List: pre}
}

func (r *rw) mapRange(n *ast.RangeStmt) ast.Stmt {
	isBlank := func(e ast.Expr) bool {
		if e == nil {
			return true
		}
		id, ok := e.(*ast.Ident)
		return ok && id.Name == "_"
	}
	mv := r.fresh("m")
	kv := r.fresh("k")
	okv := r.fresh("ok")
	var body []ast.Stmt
	valLhs := ast.Expr(ast.NewIdent("_"))
	if !isBlank(n.Value) {
		valLhs = n.Value
	}
	if n.Tok == token.DEFINE {
		if !isBlank(n.Key) {
			body = append(body, &ast.AssignStmt{Lhs: []ast.Expr{n.Key}, Tok: token.DEFINE, Rhs: []ast.Expr{ast.NewIdent(kv)}})
			body = append(body, &ast.AssignStmt{Lhs: []ast.Expr{ast.NewIdent("_")}, Tok: token.ASSIGN, Rhs: []ast.Expr{n.Key}})
		}
		body = append(body, &ast.AssignStmt{Lhs: []ast.Expr{valLhs, ast.NewIdent(okv)}, Tok: token.DEFINE,
			Rhs: []ast.Expr{&ast.IndexExpr{X: ast.NewIdent(mv), Index: ast.NewIdent(kv)}}})
		if !isBlank(n.Value) {
			body = append(body, &ast.AssignStmt{Lhs: []ast.Expr{ast.NewIdent("_")}, Tok: token.ASSIGN, Rhs: []ast.Expr{n.Value}})
		}
	} else {
		body = append(body, &ast.DeclStmt{Decl: &ast.GenDecl{Tok: token.VAR, Specs: []ast.Spec{&ast.ValueSpec{Names: []*ast.Ident{ast.NewIdent(okv)}, Type: ast.NewIdent("bool")}}}})
		if !isBlank(n.Key) {
			body = append(body, &ast.AssignStmt{Lhs: []ast.Expr{n.Key}, Tok: token.ASSIGN, Rhs: []ast.Expr{ast.NewIdent(kv)}})
		}
		body = append(body, &ast.AssignStmt{Lhs: []ast.Expr{valLhs, ast.NewIdent(okv)}, Tok: token.ASSIGN,
			Rhs: []ast.Expr{&ast.IndexExpr{X: ast.NewIdent(mv), Index: ast.NewIdent(kv)}}})
	}
	body = append(body, &ast.IfStmt{Cond: &ast.UnaryExpr{Op: token.NOT, X: ast.NewIdent(okv)}, Body: &ast.BlockStmt{List: []ast.Stmt{&ast.BranchStmt{Tok: token.CONTINUE}}}})
	body = append(body, n.Body.List...)
	loop := &ast.RangeStmt{Key: ast.NewIdent("_"), Value: ast.NewIdent(kv), Tok: token.DEFINE,
		X: &ast.CallExpr{Fun: r.sch("MapKeys"), Args: []ast.Expr{ast.NewIdent(mv)}}, Body: &ast.BlockStmt{List: body}}
	// m is evaluated once, like range does
	return &ast.BlockStmt{List: []ast.Stmt{
		&ast.AssignStmt{Lhs: []ast.Expr{ast.NewIdent(mv)}, Tok: token.DEFINE, Rhs: []ast.Expr{n.X}},
		loop,
	}}
}
