package main

import (
	"fmt"
	"os"

	"github.com/piotrnar/gocoin/lib/utxo"
)

func txid(tag uint32) (h [32]byte) {
	for i := range h {
		h[i] = byte(tag>>uint(8*(i%4))) ^ byte(i*7)
	}
	return
}

func count(db *utxo.UnspentDB) (n int) {
	for i := range db.HashMap {
		n += len(db.HashMap[i])
	}
	return
}

func main() {
	dn, _ := os.OpenFile("/dev/null", os.O_WRONLY, 0)
	os.Stdout = dn
	dir, _ := os.MkdirTemp("/dev/shm", "probe")
	defer os.RemoveAll(dir)
	db := utxo.NewUnspentDb(&utxo.NewUnspentOpts{Dir: dir + "/"})
	N := 65535
	ch := &utxo.BlockChanges{Height: 1, DeledTxs: map[[32]byte][]bool{}}
	for i := 0; i < N; i++ {
		ch.AddList = append(ch.AddList, &utxo.UtxoRec{TxID: txid(uint32(0x1000 + i)), InBlock: 1, Outs: []*utxo.UtxoTxOut{{Value: uint64(i + 1), PKScr: []byte{0x51}}, {Value: 7, PKScr: []byte{0x52}}}})
	}
	db.CommitBlockTxs(ch, make([]byte, 32))
	fmt.Fprintln(os.Stderr, "after gen1:", count(db), "want", N)
	// gen2: spend both outputs of every 21st record (removes it), one output of every 5th
	ch2 := &utxo.BlockChanges{Height: 2, DeledTxs: map[[32]byte][]bool{}}
	removed := 0
	for i := 0; i < N; i++ {
		switch {
		case i%21 == 0:
			ch2.DeledTxs[txid(uint32(0x1000+i))] = []bool{true, true}
			removed++
		case i%5 == 0:
			ch2.DeledTxs[txid(uint32(0x1000+i))] = []bool{true, false}
		}
	}
	db.CommitBlockTxs(ch2, make([]byte, 32))
	fmt.Fprintln(os.Stderr, "after gen2:", count(db), "want", N-removed)
	db.Close()
	db2 := utxo.NewUnspentDb(&utxo.NewUnspentOpts{Dir: dir + "/"})
	fmt.Fprintln(os.Stderr, "after reload:", count(db2), "want", N-removed)
}
