package main

import (
	"fmt"
	"os"
	"time"
	"verif/internal/ev"
	"verif/internal/minichain"
	"verif/ref/refchain"
)

func main() {
	minichain.Quiet()
	d := ev.Scratch("probe")
	defer os.RemoveAll(d)
	p := refchain.DefaultParams()
	t0 := time.Now()
	e := minichain.Open(d+"/x", &minichain.Opts{Params: p})
	fmt.Fprintln(os.Stderr, "open fresh", time.Since(t0))
	prev := minichain.GenesisHash
	t0 = time.Now()
	for h := uint32(1); h <= 105; h++ {
		b := minichain.Build(minichain.Spec{Prev: prev, Height: h, CbValue: -1})
		if r := e.Deliver(b.Bytes()); r != "ok" {
			panic(r)
		}
		prev = b.Hash()
	}
	fmt.Fprintln(os.Stderr, "105 blocks", time.Since(t0))
	t0 = time.Now()
	e.Close()
	fmt.Fprintln(os.Stderr, "close", time.Since(t0))
	for i := 0; i < 3; i++ {
		t0 = time.Now()
		e = minichain.Open(d+"/x", &minichain.Opts{Params: p})
		fmt.Fprintln(os.Stderr, "reopen", time.Since(t0))
		t0 = time.Now()
		e.UTXO()
		fmt.Fprintln(os.Stderr, "dump", time.Since(t0))
		t0 = time.Now()
		e.Close()
		fmt.Fprintln(os.Stderr, "close", time.Since(t0))
	}
}
