#!/bin/bash
# usage: run.sh <check-dir-name> [--tier quick|thorough] [--replay file] ...
# Rebuilds the check from the repository's current working tree and runs it.
# Exit: 0 held, 1 violation, 2 harness error.
#   VERIF_REPO  tree under test (default /repo; scratch worktrees for mutation runs)
#   VERIF_OUT   where bin/, .build/, logs/, evidence/, replays/ go (default /verif)
set -u
export GOFLAGS=-mod=mod GOPROXY=off GOSUMDB=off GOTOOLCHAIN=local
REPO="${VERIF_REPO:-/repo}"
OUT="${VERIF_OUT:-/verif}"
export VERIF_REPO="$REPO" VERIF_OUT="$OUT"
cd /verif || exit 2
chk="$1"; shift
bd="$OUT/.build/$chk"
mkdir -p "$bd" "$OUT/bin" "$OUT/logs" "$OUT/evidence" "$OUT/replays"
# module file binding the harness to the tree under test
sed "s#=> /repo#=> $REPO#" /verif/go.mod > "$bd/go.mod"
cp /verif/go.sum "$bd/go.sum" 2>/dev/null
# Performance-only overlay, regenerated from the working tree on every run:
# gocoin pre-sizes its block-index map for 500k mainnet blocks (~10 ms of page
# clearing per chain open; histories open thousands of chains). Only the numeric
# value of that one constant is replaced; if the line is absent the file is used
# unchanged.
# Likewise an empty UTXO database pre-sizes each of its 256 maps for 100e3 records
# (~600 MB of map buckets per open of a directory without a snapshot); only that
# capacity hint is replaced.
ov="$bd/overlay.json"
src="$REPO/lib/chain/const.go"
src2="$REPO/lib/utxo/unspent_db.go"
rep=""
if grep -q 'BlockMapInitLen = 500e3' "$src" 2>/dev/null; then
  sed 's/BlockMapInitLen = 500e3/BlockMapInitLen = 512/' "$src" > "$bd/const.go"
  rep="\"$src\":\"$bd/const.go\""
fi
if grep -q 'make(map\[UtxoKeyType\]\*\[\]byte, 100e3)' "$src2" 2>/dev/null; then
  sed 's/make(map\[UtxoKeyType\]\*\[\]byte, 100e3)/make(map[UtxoKeyType]*[]byte, 64)/' "$src2" > "$bd/unspent_db.go"
  [ -n "$rep" ] && rep="$rep,"
  rep="$rep\"$src2\":\"$bd/unspent_db.go\""
fi
printf '{"Replace":{%s}}\n' "$rep" > "$ov"
# optional per-check overlay generator: checks/<chk>/overlay.sh <builddir> <overlay.json> <repo>
if [ -x "/verif/checks/$chk/overlay.sh" ]; then
  "/verif/checks/$chk/overlay.sh" "$bd" "$ov" "$REPO" || { echo "HARNESS-ERROR: overlay generation failed" >&2; exit 2; }
fi
tags="${VERIF_TAGS:-verif}"
if ! go build -modfile="$bd/go.mod" -tags "$tags" -overlay "$ov" -o "$OUT/bin/$chk" "./checks/$chk" 2> "$OUT/logs/$chk.build.log"; then
  cat "$OUT/logs/$chk.build.log" >&2
  echo "HARNESS-ERROR: build of $chk failed" >&2
  exit 2
fi
# optional second build with the race detector (free-running pass of the same harness bodies)
if [ -f "/verif/checks/$chk/RACE" ]; then
  if ! go build -race -modfile="$bd/go.mod" -tags "$tags" -overlay "$ov" -o "$OUT/bin/$chk-race" "./checks/$chk" 2> "$OUT/logs/$chk.racebuild.log"; then
    cat "$OUT/logs/$chk.racebuild.log" >&2
    echo "HARNESS-ERROR: race build of $chk failed" >&2
    exit 2
  fi
fi
[ -n "${VERIF_BUILD_ONLY:-}" ] && exit 0
exec "$OUT/bin/$chk" "$@" 2> "$OUT/logs/$chk.stderr.log"
