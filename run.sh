#!/bin/bash
# usage: run.sh <check-dir-name> [--tier quick|thorough] ...
# Rebuilds the check from /repo's current working tree (replace directive in go.mod
# points at /repo) and runs it. Exit: 0 held, 1 violation, 2 harness error.
set -u
export GOFLAGS=-mod=mod GOPROXY=off GOSUMDB=off GOTOOLCHAIN=local
cd /verif || exit 2
chk="$1"; shift
bd=/verif/.build/$chk
mkdir -p "$bd" /verif/bin /verif/logs
# Performance-only overlay, regenerated from the working tree on every run:
# gocoin pre-sizes its block-index map for 500k mainnet blocks, which costs ~10 ms
# of page clearing per chain open; histories open thousands of chains. Only the
# numeric value of that one constant is replaced; if the line is not found the
# file is used unchanged.
ov="$bd/overlay.json"
src=/repo/lib/chain/const.go
if grep -q 'BlockMapInitLen = 500e3' "$src" 2>/dev/null; then
  sed 's/BlockMapInitLen = 500e3/BlockMapInitLen = 512/' "$src" > "$bd/const.go"
  printf '{"Replace":{"%s":"%s"}}\n' "$src" "$bd/const.go" > "$ov"
else
  printf '{"Replace":{}}\n' > "$ov"
fi
if [ -x "/verif/checks/$chk/overlay.sh" ]; then
  "/verif/checks/$chk/overlay.sh" "$bd" "$ov" || { echo "HARNESS-ERROR: overlay generation failed" >&2; exit 2; }
fi
tags="${VERIF_TAGS:-verif}"
if ! go build -tags "$tags" -overlay "$ov" -o "/verif/bin/$chk" "./checks/$chk" 2> "/verif/logs/$chk.build.log"; then
  cat "/verif/logs/$chk.build.log" >&2
  echo "HARNESS-ERROR: build of $chk failed" >&2
  exit 2
fi
exec "/verif/bin/$chk" "$@" 2> "/verif/logs/$chk.stderr.log"
