#!/bin/bash
# Runs the repository's pinned baseline suite (no build tags = guard off) and
# verifies that every test of /root/.vp/BASELINE.json "stable_pass" passes.
# VERIF_REPO selects the tree (default /repo).
export GOFLAGS=-mod=mod GOPROXY=off GOSUMDB=off GOTOOLCHAIN=local
cd "${VERIF_REPO:-/repo}" || exit 2
export BJ=$(mktemp /tmp/verif-baseline-XXXXXX.json)
go test -json -vet=off -count=1 -timeout 25m ./... > "$BJ" 2>/dev/null
python3 - <<'PY'
import json,sys,os
passed=set()
for l in open(os.environ['BJ']):
    try: e=json.loads(l)
    except Exception: continue
    if e.get('Action')=='pass' and e.get('Test') and '/' not in e['Test']:
        passed.add(e['Package']+'::'+e['Test'])
want=json.load(open('/root/.vp/BASELINE.json'))['stable_pass']
missing=[t for t in want if t not in passed]
print('baseline: %d/%d stable tests pass'%(len(want)-len(missing),len(want)))
for m in missing: print('  MISSING',m)
sys.exit(1 if missing else 0)
PY
rc=$?
rm -f "$BJ"
exit $rc
