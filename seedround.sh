#!/bin/bash
# seedround.sh <id> <pkgdir> <test-regex> <check> : remove the agent's worktrees, confirm the seed, run the check on it
id="$1"; pkg="$2"; rx="$3"; chk="$4"
for w in $(git -C /repo worktree list | awk '{print $1}' | grep "^/tmp/seed-${id%-*}-" ); do git -C /repo worktree remove --force "$w" 2>/dev/null; done
/verif/seedconfirm.sh "$id" "$pkg" "$rx" || exit 1
[ -f /verif/seeded/$id/patch.diff ] || { echo "$id NOT CONFIRMED"; exit 1; }
cp /verif/seeded/$id/patch.diff /tmp/sd-$id.patch
/verif/seedeval.sh /tmp/sd-$id.patch "$chk" quick 2>&1 | grep -v "^KNOWN" | cut -c1-220
